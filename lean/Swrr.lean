import Mathlib

/-!
# Smooth weighted round-robin: exact shares and period W

The transition relation is the one proved (by govc, on the real code) as the postcondition of
`bal_slb.smoothBalance`: the chosen backend `m` has maximal current weight, every backend gains its weight,
and the chosen one additionally loses the SUM of the current weights (bfe's variant of nginx's algorithm).
Started from `current = weight` (what `Init` sets), with all weights positive:
* the state after `W = Σ weights` selections is the initial state again (`period`), hence the state sequence
  and — the tie-break being a function of the state — the selection sequence repeat with period `W`;
* every window of `W` consecutive selections picks backend `i` exactly `w i` times (`window_exact`).
-/

open Finset BigOperators

namespace Swrr

variable {n : ℕ}

/-- one selection step on the vector of current weights -/
def step (w : Fin n → ℤ) (m : Fin n) (c : Fin n → ℤ) : Fin n → ℤ :=
  fun i => c i + w i - (if i = m then ∑ j, c j else 0)

variable (w : Fin n → ℤ) (pick : (Fin n → ℤ) → Fin n)

/-- state after `t` selections, starting from `current = weight` -/
def state : ℕ → (Fin n → ℤ)
  | 0 => w
  | t + 1 => step w (pick (state t)) (state t)

/-- number of times backend `i` was selected among the first `t` selections -/
def cnt (i : Fin n) : ℕ → ℤ
  | 0 => 0
  | t + 1 => cnt i t + (if pick (state w pick t) = i then 1 else 0)

/-- total weight -/
def W : ℤ := ∑ j, w j

variable {w pick}

theorem sum_step (m : Fin n) (c : Fin n → ℤ) : ∑ i, step w m c i = W w := by
  unfold step W
  rw [Finset.sum_sub_distrib, Finset.sum_add_distrib]
  simp [Finset.sum_ite_eq']

theorem sum_state (t : ℕ) : ∑ i, state w pick t i = W w := by
  cases t with
  | zero => rfl
  | succ t => exact sum_step _ _

theorem closed_form (i : Fin n) (t : ℕ) :
    state w pick t i = ((t : ℤ) + 1) * w i - W w * cnt w pick i t := by
  induction t with
  | zero => simp [state, cnt]
  | succ t ih =>
    simp only [state, cnt, step]
    rw [sum_state, ih]
    by_cases h : i = pick (state w pick t)
    · have h' : pick (state w pick t) = i := h.symm
      simp [h']
      push_cast
      ring
    · have h' : ¬ pick (state w pick t) = i := fun e => h e.symm
      simp [h, h']
      push_cast
      ring

theorem sum_cnt (t : ℕ) : ∑ i, cnt w pick i t = (t : ℤ) := by
  induction t with
  | zero => simp [cnt]
  | succ t ih =>
    simp only [cnt]
    rw [Finset.sum_add_distrib, ih]
    simp [Finset.sum_ite_eq]

end Swrr

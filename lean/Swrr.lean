import Mathlib

/-!
# Smooth weighted round-robin: exact shares and period W

The transition relation is the one proved (by govc, on the real code) as the postcondition of
`bal_slb.smoothBalance`: the chosen backend `m` has maximal current weight, every backend gains its weight,
and the chosen one additionally loses the SUM of the current weights (bfe's variant of nginx's algorithm).
Started from `current = weight` (what `Init` sets), with all weights positive:
* the state after `W = Σ weights` selections is the initial state again (`period`), hence the state sequence
  and — the tie-break being a function of the state — the selection sequence repeat with period `W`;
* every window of `W` consecutive selections picks backend `i` exactly `w i` times (`window_exact`).
-/

open Finset BigOperators

namespace Swrr

variable {n : ℕ}

/-- one selection step on the vector of current weights -/
def step (w : Fin n → ℤ) (m : Fin n) (c : Fin n → ℤ) : Fin n → ℤ :=
  fun i => c i + w i - (if i = m then ∑ j, c j else 0)

variable (w : Fin n → ℤ) (pick : (Fin n → ℤ) → Fin n)

/-- state after `t` selections, starting from `current = weight` -/
def state : ℕ → (Fin n → ℤ)
  | 0 => w
  | t + 1 => step w (pick (state t)) (state t)

/-- number of times backend `i` was selected among the first `t` selections -/
def cnt (i : Fin n) : ℕ → ℤ
  | 0 => 0
  | t + 1 => cnt i t + (if pick (state w pick t) = i then 1 else 0)

/-- total weight -/
def W : ℤ := ∑ j, w j

variable {w pick}

theorem sum_step (m : Fin n) (c : Fin n → ℤ) : ∑ i, step w m c i = W w := by
  unfold step W
  rw [Finset.sum_sub_distrib, Finset.sum_add_distrib]
  simp [Finset.sum_ite_eq']

theorem sum_state (t : ℕ) : ∑ i, state w pick t i = W w := by
  cases t with
  | zero => rfl
  | succ t => exact sum_step _ _

theorem closed_form (i : Fin n) (t : ℕ) :
    state w pick t i = ((t : ℤ) + 1) * w i - W w * cnt w pick i t := by
  induction t with
  | zero => simp [state, cnt]
  | succ t ih =>
    simp only [state, cnt, step]
    rw [sum_state, ih]
    by_cases h : i = pick (state w pick t)
    · have h' : pick (state w pick t) = i := h.symm
      simp [h']
      push_cast
      ring
    · have h' : ¬ pick (state w pick t) = i := fun e => h e.symm
      simp [h, h']
      push_cast
      ring

theorem sum_cnt (t : ℕ) : ∑ i, cnt w pick i t = (t : ℤ) := by
  induction t with
  | zero => simp [cnt]
  | succ t ih =>
    simp only [cnt]
    rw [Finset.sum_add_distrib, ih]
    simp [Finset.sum_ite_eq]


/-- the selected backend has maximal current weight (any tie-break) -/
def IsArgmax (pick : (Fin n → ℤ) → Fin n) : Prop :=
  ∀ (c : Fin n → ℤ) (i : Fin n), c i ≤ c (pick c)

theorem W_pos (hw : ∀ i, 0 < w i) (i0 : Fin n) : 0 < W w := by
  unfold W
  exact Finset.sum_pos (fun i _ => hw i) ⟨i0, Finset.mem_univ _⟩

/-- if the current weights sum to something positive, the maximal one is positive -/
theorem max_pos (hp : IsArgmax pick) (c : Fin n → ℤ) (hs : 0 < ∑ i, c i) : 0 < c (pick c) := by
  by_contra h
  rw [not_lt] at h
  have : ∑ i, c i ≤ 0 := Finset.sum_nonpos (fun i _ => le_trans (hp c i) h)
  omega

/-- no current weight ever drops to `weight - W` or below -/
theorem lower_bound (hw : ∀ i, 0 < w i) (hp : IsArgmax pick) (i0 : Fin n) (t : ℕ) (i : Fin n) :
    w i - W w < state w pick t i := by
  have hW := W_pos hw i0
  induction t generalizing i with
  | zero => simp [state]; exact hW
  | succ t ih =>
    simp only [state, step]
    rw [sum_state]
    by_cases h : i = pick (state w pick t)
    · have hm : 0 < state w pick t (pick (state w pick t)) :=
        max_pos hp _ (by rw [sum_state]; exact hW)
      subst h
      simp
      omega
    · simp [h]
      have := ih i
      have := hw i
      omega

theorem cnt_nonneg (i : Fin n) (t : ℕ) : 0 ≤ cnt w pick i t := by
  induction t with
  | zero => simp [cnt]
  | succ t ih =>
    simp only [cnt]
    split_ifs <;> omega


/-- after `W` selections backend `i` has been selected exactly `w i` times -/
theorem cnt_W (hw : ∀ i, 0 < w i) (hp : IsArgmax pick) (i0 : Fin n) (i : Fin n) :
    cnt w pick i (W w).toNat = w i := by
  have hW := W_pos hw i0
  have hcast : (((W w).toNat : ℕ) : ℤ) = W w := Int.toNat_of_nonneg hW.le
  -- each count is at most the weight
  have hle : ∀ j, cnt w pick j (W w).toNat ≤ w j := by
    intro j
    have hl := lower_bound hw hp i0 (W w).toNat j
    rw [closed_form, hcast] at hl
    by_contra hc
    rw [not_le] at hc
    have h1 : w j + 1 ≤ cnt w pick j (W w).toNat := hc
    have h2 : W w * (w j + 1) ≤ W w * cnt w pick j (W w).toNat :=
      mul_le_mul_of_nonneg_left h1 hW.le
    nlinarith
  -- and the counts add up to the sum of the weights
  have hsum : ∑ j, (w j - cnt w pick j (W w).toNat) = 0 := by
    rw [Finset.sum_sub_distrib, sum_cnt, hcast]
    simp [W]
  have hzero := (Finset.sum_eq_zero_iff_of_nonneg (fun j _ => sub_nonneg.mpr (hle j))).mp hsum i
    (Finset.mem_univ _)
  omega

/-- the state after `W` selections is the initial state -/
theorem period (hw : ∀ i, 0 < w i) (hp : IsArgmax pick) (i0 : Fin n) :
    state w pick (W w).toNat = w := by
  funext i
  have hW := W_pos hw i0
  have hcast : (((W w).toNat : ℕ) : ℤ) = W w := Int.toNat_of_nonneg hW.le
  rw [closed_form, cnt_W hw hp i0, hcast]
  ring

/-- the state sequence (hence the selection sequence `pick (state t)`) repeats with period `W` -/
theorem periodic (hw : ∀ i, 0 < w i) (hp : IsArgmax pick) (i0 : Fin n) (t : ℕ) :
    state w pick (t + (W w).toNat) = state w pick t := by
  induction t with
  | zero =>
    rw [Nat.zero_add]
    exact period hw hp i0
  | succ t ih =>
    have : t + 1 + (W w).toNat = (t + (W w).toNat) + 1 := by omega
    rw [this]
    simp only [state]
    rw [ih]

/-- every window of `W` consecutive selections selects backend `i` exactly `w i` times -/
theorem window_exact (hw : ∀ i, 0 < w i) (hp : IsArgmax pick) (i0 : Fin n) (s : ℕ) (i : Fin n) :
    cnt w pick i (s + (W w).toNat) - cnt w pick i s = w i := by
  have hW := W_pos hw i0
  have hcast : (((W w).toNat : ℕ) : ℤ) = W w := Int.toNat_of_nonneg hW.le
  have h := congrFun (periodic hw hp i0 s) i
  rw [closed_form, closed_form] at h
  push_cast at h
  rw [hcast] at h
  have h3 : W w * (cnt w pick i (s + (W w).toNat) - cnt w pick i s - w i) = 0 := by
    linarith
  rcases mul_eq_zero.mp h3 with h4 | h4
  · omega
  · omega

end Swrr

package bfe_proxy

// Bounded stand-in for property C46 (see /verif/DESIGN.md). The PROXY parsers read through bfe_bufio,
// io.LimitReader and encoding/binary's reflection-based Read, which the contract verifier cannot follow.
// Every header a spec-conformant sender can produce from a small grid of parameters (v1 and v2, all address
// families, LOCAL / UNKNOWN / UNSPEC, optional TLV bytes), followed by every payload of a small set, is fed to
// the REAL Conn; the oracle is the PROXY protocol specification: advertised addresses reported (real socket
// addresses for LOCAL, UNKNOWN and UNSPEC), every following byte delivered unchanged, malformed headers end in
// an error with no data, connections without a header pass through untouched.

import (
	"bytes"
	"encoding/binary"
	"fmt"
	"io"
	"net"
	"sort"
	"strings"
	"testing"
	"time"
)

type bc46Conn struct {
	r      *bytes.Reader
	closed bool
	seg    int // > 0: the peer's bytes arrive in segments of at most seg bytes (one per Read)
}

func (c *bc46Conn) Read(b []byte) (int, error) {
	if c.closed {
		return 0, io.ErrClosedPipe
	}
	if c.seg > 0 && len(b) > c.seg {
		b = b[:c.seg]
	}
	return c.r.Read(b)
}
func (c *bc46Conn) Write(b []byte) (int, error)        { return len(b), nil }
func (c *bc46Conn) Close() error                       { c.closed = true; return nil }
func (c *bc46Conn) LocalAddr() net.Addr                { return &net.TCPAddr{IP: net.IPv4(10, 0, 0, 1), Port: 8080} }
func (c *bc46Conn) RemoteAddr() net.Addr               { return &net.TCPAddr{IP: net.IPv4(10, 9, 9, 9), Port: 4321} }
func (c *bc46Conn) SetDeadline(t time.Time) error      { return nil }
func (c *bc46Conn) SetReadDeadline(t time.Time) error  { return nil }
func (c *bc46Conn) SetWriteDeadline(t time.Time) error { return nil }

type bc46Case struct {
	id       string
	wire     []byte
	payload  []byte
	wantErr  bool   // malformed: error, no data
	wantSrc  string // "" = real socket address
	wantDst  string // "" = none
	passThru bool   // no header: everything is data
}

func bc46Run(c bc46Case, seg int) (verdict string) {
	defer func() {
		if r := recover(); r != nil {
			verdict = fmt.Sprintf("panic: %v", r)
		}
	}()
	raw := &bc46Conn{r: bytes.NewReader(append(append([]byte{}, c.wire...), c.payload...)), seg: seg}
	pc := NewConn(raw, time.Second, 0)
	data, err := io.ReadAll(pc)
	if c.wantErr {
		if err == nil && !(len(data) == 0 && raw.closed) {
			return fmt.Sprintf("malformed header accepted (delivered %d bytes)", len(data))
		}
		if len(data) != 0 {
			return fmt.Sprintf("malformed header: %d bytes delivered before the error", len(data))
		}
		return ""
	}
	if err != nil {
		return "valid input rejected: " + err.Error()
	}
	want := c.payload
	if c.passThru {
		want = append(append([]byte{}, c.wire...), c.payload...)
	}
	if !bytes.Equal(data, want) {
		return fmt.Sprintf("application received %q, want %q", data, want)
	}
	src := pc.RemoteAddr().String()
	wantSrc := c.wantSrc
	if wantSrc == "" {
		wantSrc = raw.RemoteAddr().String()
	}
	if src != wantSrc {
		return fmt.Sprintf("source address %s, want %s", src, wantSrc)
	}
	if c.wantDst != "" {
		va := pc.VirtualAddr()
		if va == nil || va.String() != c.wantDst {
			return fmt.Sprintf("destination address %v, want %s", va, c.wantDst)
		}
	}
	return ""
}

func bc46V2(cmd, fam byte, addr []byte, tlv []byte) []byte {
	b := append([]byte{}, SIGV2...)
	b = append(b, cmd, fam)
	var l [2]byte
	binary.BigEndian.PutUint16(l[:], uint16(len(addr)+len(tlv)))
	b = append(b, l[:]...)
	b = append(b, addr...)
	return append(b, tlv...)
}

func bc46Cases() []bc46Case {
	var cs []bc46Case
	payloads := [][]byte{nil, []byte("GET / HTTP/1.1\r\nHost: a\r\n\r\n"), []byte("\r\n\r\n\x00\r\nQUIT\n"), []byte("PROXY TCP4 9.9.9.9 8.8.8.8 1 2\r\nX")}
	ports := []int{1, 80, 65535}
	add := func(c bc46Case) {
		for i, p := range payloads {
			d := c
			d.payload = p
			d.id = fmt.Sprintf("%s/payload%d", c.id, i)
			cs = append(cs, d)
		}
	}
	// ---- version 1 ----
	for _, a := range [][2]string{{"1.2.3.4", "4.3.2.1"}, {"255.255.255.255", "0.0.0.0"}} {
		for _, sp := range ports {
			for _, dp := range ports {
				add(bc46Case{id: fmt.Sprintf("v1/TCP4/%s/%s/%d/%d", a[0], a[1], sp, dp),
					wire:    []byte(fmt.Sprintf("PROXY TCP4 %s %s %d %d\r\n", a[0], a[1], sp, dp)),
					wantSrc: fmt.Sprintf("%s:%d", a[0], sp), wantDst: fmt.Sprintf("%s:%d", a[1], dp)})
			}
		}
	}
	for _, a := range [][2]string{{"::1", "2001:db8::2"}, {"ffff:ffff:ffff:ffff:ffff:ffff:ffff:ffff", "1::"}} {
		for _, sp := range ports {
			add(bc46Case{id: fmt.Sprintf("v1/TCP6/%s/%s/%d", a[0], a[1], sp),
				wire:    []byte(fmt.Sprintf("PROXY TCP6 %s %s %d 443\r\n", a[0], a[1], sp)),
				wantSrc: fmt.Sprintf("[%s]:%d", a[0], sp), wantDst: fmt.Sprintf("[%s]:443", a[1])})
		}
	}
	add(bc46Case{id: "v1/UNKNOWN/short", wire: []byte("PROXY UNKNOWN\r\n")})
	add(bc46Case{id: "v1/UNKNOWN/long", wire: []byte("PROXY UNKNOWN ffff:f...f:ffff ffff:f...f:ffff 65535 65535\r\n")})
	// malformed v1
	for i, w := range []string{"PROXY TCP5 1.2.3.4 4.3.2.1 1 2\r\n", "PROXY TCP4 1.2.3.4 4.3.2.1 1 2\n", "PROXY TCP4 1.2.3.4 4.3.2.1 65536 2\r\n", "PROXY TCP4 ::1 4.3.2.1 1 2\r\n", "PROXY TCP6 1.2.3.4 ::1 1 2\r\n", "PROXY TCP4 1.2.3.4 4.3.2.1 1\r\n", "PROXY TCP4 1.2.3.4 4.3.2.1 x 2\r\n", "PROXY TCP4 1.2.3.4"} {
		add(bc46Case{id: fmt.Sprintf("v1/malformed%d", i), wire: []byte(w), wantErr: true})
	}
	// ---- version 2 ----
	a4 := []byte{1, 2, 3, 4, 4, 3, 2, 1, 0x30, 0x39, 0x01, 0xbb} // 1.2.3.4:12345 -> 4.3.2.1:443
	a6 := append(append(append([]byte{}, net.ParseIP("2001:db8::1").To16()...), net.ParseIP("2001:db8::2").To16()...), 0x30, 0x39, 0x01, 0xbb)
	aunix := make([]byte, 216)
	// TLV tails: none, empty NOOP, 4-byte NOOP, and NOOP TLVs whose total size sits around the sizes that
	// matter to readers (64; 255/256/257 = one-byte counters and small fixed buffers; 1000; 1800 = with the largest address block still
	// under the configured 2048-byte header limit)
	noop := func(total int) []byte {
		t := make([]byte, total)
		t[0] = 0x04
		binary.BigEndian.PutUint16(t[1:3], uint16(total-3))
		for i := 3; i < total; i++ {
			t[i] = byte(i)
		}
		return t
	}
	for _, tlv := range [][]byte{nil, {0x04, 0x00, 0x00}, {0x04, 0x00, 0x04, 0, 0, 0, 0}, noop(64), noop(255), noop(256), noop(257), noop(1000), noop(1800)} {
		n := len(tlv)
		add(bc46Case{id: fmt.Sprintf("v2/PROXY/TCP4/tlv%d", n), wire: bc46V2(0x21, 0x11, a4, tlv), wantSrc: "1.2.3.4:12345", wantDst: "4.3.2.1:443"})
		add(bc46Case{id: fmt.Sprintf("v2/PROXY/TCP6/tlv%d", n), wire: bc46V2(0x21, 0x21, a6, tlv), wantSrc: "[2001:db8::1]:12345", wantDst: "[2001:db8::2]:443"})
		add(bc46Case{id: fmt.Sprintf("v2/PROXY/UNSPEC/tlv%d", n), wire: bc46V2(0x21, 0x00, nil, tlv)})
		add(bc46Case{id: fmt.Sprintf("v2/LOCAL/UNSPEC/tlv%d", n), wire: bc46V2(0x20, 0x00, nil, tlv)})
		add(bc46Case{id: fmt.Sprintf("v2/LOCAL/TCP4/tlv%d", n), wire: bc46V2(0x20, 0x11, a4, tlv)})
		add(bc46Case{id: fmt.Sprintf("v2/LOCAL/TCP6/tlv%d", n), wire: bc46V2(0x20, 0x21, a6, tlv)})
		add(bc46Case{id: fmt.Sprintf("v2/LOCAL/UNIX/tlv%d", n), wire: bc46V2(0x20, 0x31, aunix, tlv)})
	}
	// malformed v2
	add(bc46Case{id: "v2/malformed/version3", wire: bc46V2(0x31, 0x11, a4, nil), wantErr: true})
	add(bc46Case{id: "v2/malformed/command2", wire: bc46V2(0x22, 0x11, a4, nil), wantErr: true})
	add(bc46Case{id: "v2/malformed/short-tcp4", wire: bc46V2(0x21, 0x11, a4[:8], nil), wantErr: true})
	add(bc46Case{id: "v2/malformed/short-tcp6", wire: bc46V2(0x21, 0x21, a6[:20], nil), wantErr: true})
	for cut := 13; cut < 28; cut += 3 {
		w := bc46V2(0x21, 0x11, a4, nil)
		cs = append(cs, bc46Case{id: fmt.Sprintf("v2/malformed/truncated%d", cut), wire: w[:cut], wantErr: true})
	}
	// ---- no header ----
	for i, w := range []string{"GET / HTTP/1.1\r\n\r\n", "POST /x HTTP/1.1\r\n\r\n", "PROXZ TCP4 1.2.3.4 4.3.2.1 1 2\r\n", "\r\n\r\n\x00\r\nQUIX\nabcdefgh", "\x16\x03\x01\x00\x05hello"} {
		add(bc46Case{id: fmt.Sprintf("none%d", i), wire: []byte(w), passThru: true})
	}
	return cs
}

func TestBoundedC46Proxy(t *testing.T) {
	cases := bc46Cases()
	fails := map[string]string{}
	samples := 0
	segs := []int{0, 1, 13} // whole stream at once, byte by byte, 13-byte segments (splits inside every part)
	for _, c := range cases {
		v, vseg := "", 0
		for _, seg := range segs {
			if v = bc46Run(c, seg); v != "" {
				vseg = seg
				break
			}
		}
		if v != "" {
			if vseg > 0 {
				v = fmt.Sprintf("delivered in segments of %d bytes: %s", vseg, v)
			}
			// one id per header shape (the payload variants of a shape fail together)
			shape := c.id
			if i := strings.LastIndex(shape, "/payload"); i >= 0 {
				shape = shape[:i]
			}
			if _, dup := fails[shape]; !dup {
				fails[shape] = fmt.Sprintf("%s (header %q, payload %q)", v, c.wire, c.payload)
			}
		} else if samples < 3 && strings.HasSuffix(c.id, "/payload1") && (strings.HasPrefix(c.id, "v1/TCP6") || strings.HasPrefix(c.id, "v2/PROXY/TCP4")) {
			samples++
			fmt.Printf("BOUNDED-SAMPLE %s: header %q + payload %q -> addresses and payload as the specification says\n", c.id, c.wire, c.payload)
		}
	}
	var ids []string
	for id := range fails {
		ids = append(ids, id)
	}
	sort.Strings(ids)
	for _, id := range ids {
		fmt.Printf("BOUNDED-FAIL id=%s :: %s\n", strings.ReplaceAll(id, " ", "_"), fails[id])
	}
	fmt.Printf("BOUNDED-CASES n=%d distinct=%d bound=each wire image delivered whole, byte by byte and in 13-byte segments; v1: TCP4/TCP6 over 2 address pairs x 3x3 ports, UNKNOWN short/long, 8 malformed lines; v2: PROXY/LOCAL x UNSPEC/TCP4/TCP6/UNIX x 9 TLV tails (0..1800 bytes), 4 malformed + 5 truncations; 5 header-less streams; each with 4 payloads\n", 3*len(cases), 3*len(cases))
}

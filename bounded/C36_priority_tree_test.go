package bfe_http2

// Bounded stand-in for property C36 (see /verif/DESIGN.md). Acyclicity of the stream dependency tree is a
// reachability invariant over a pointer graph held in a map; its re-establishment after re-parenting a whole
// subtree needs a new rank witness for every moved node, which the contract verifier does not attempt.
// Here the REAL adjustStreamPriority is run on every sequence of up to L PRIORITY operations over N open
// streams (every stream, every dependency target including 0 = root, the stream itself, another stream and an
// unknown stream, exclusive or not), starting from the forest in which no stream has a parent; after every
// operation the ancestor walk of every stream must end within N steps (no stream is its own ancestor, and
// the walks of adjustStreamPriority itself terminate: the harness would hang / time out otherwise).

import (
	"fmt"
	"os"
	"testing"
)

type bc36Op struct {
	id, dep uint32
	excl    bool
	close   bool // the stream ends (it leaves the stream table; other streams may still name it as their parent)
}

func bc36Cyclic(streams map[uint32]*stream) (uint32, bool) {
	n := len(streams)
	for id, st := range streams {
		if st == nil {
			continue
		}
		p := st.parent
		for steps := 0; p != nil; steps++ {
			if p == st || steps > n {
				return id, true
			}
			p = p.parent
		}
	}
	return 0, false
}

func bc36Shape(streams map[uint32]*stream, ids []uint32) string {
	s := ""
	for _, id := range ids {
		p := uint32(0)
		if streams[id].parent != nil {
			p = streams[id].parent.id
		}
		s += fmt.Sprintf("%d<-%d ", id, p)
	}
	return s
}

func TestBoundedC36PriorityTree(t *testing.T) {
	nStreams, maxOps := 4, 3
	if os.Getenv("GOVC_BOUNDED_TIER") == "thorough" {
		nStreams, maxOps = 4, 4
	}
	var ids []uint32
	for i := 0; i < nStreams; i++ {
		ids = append(ids, uint32(2*i+1))
	}
	deps := append(append([]uint32{0}, ids...), 99) // 0 = root, 99 = unknown stream
	var ops []bc36Op
	for _, id := range ids {
		for _, d := range deps {
			ops = append(ops, bc36Op{id: id, dep: d}, bc36Op{id: id, dep: d, excl: true})
		}
		ops = append(ops, bc36Op{id: id, close: true})
	}
	cases, distinct, nfail, samples := 0, 0, 0, 0
	shapes := map[string]bool{}
	var rec func(seq []bc36Op)
	rec = func(seq []bc36Op) {
		// replay the sequence on a fresh forest
		streams := map[uint32]*stream{}
		all := map[uint32]*stream{} // every stream object ever created, closed ones included
		for _, id := range ids {
			streams[id] = &stream{id: id, state: stateOpen}
			all[id] = streams[id]
		}
		bad := ""
		for i, op := range seq {
			if op.close {
				delete(streams, op.id)
			} else {
				adjustStreamPriority(streams, op.id, PriorityParam{StreamDep: op.dep, Exclusive: op.excl, Weight: 15})
			}
			if id, cyc := bc36Cyclic(all); cyc {
				bad = fmt.Sprintf("after operation %d stream %d is its own ancestor (tree: %s)", i+1, id, bc36Shape(all, ids))
				break
			}
		}
		cases++
		sh := bc36Shape(all, ids)
		if !shapes[sh] {
			shapes[sh] = true
			distinct++
			if samples < 3 && len(seq) == maxOps && distinct%5 == 0 {
				samples++
				fmt.Printf("BOUNDED-SAMPLE operations %v (stream, depends-on, exclusive) -> tree %s: acyclic\n", seq, sh)
			}
		}
		if bad != "" {
			nfail++
			if nfail <= 20 {
				fmt.Printf("BOUNDED-FAIL id=ops%v :: %s\n", fmt.Sprint(seq), bad)
			}
			return // extensions of a failing sequence fail the same way
		}
		if len(seq) == maxOps {
			return
		}
		for _, op := range ops {
			rec(append(append([]bc36Op{}, seq...), op))
		}
	}
	rec(nil)
	fmt.Printf("BOUNDED-CASES n=%d distinct=%d bound=every sequence of 0..%d PRIORITY operations over %d open streams (each operation: a PRIORITY for any stream - depending on the root, on any stream incl. itself, a closed or an unknown stream, exclusive or not - or the end of a stream, which leaves the table but may still be named as a parent), from the parentless forest; distinct = dependency trees reached\n", cases, distinct, maxOps, nStreams)
}

package bfe_http2

// Bounded stand-in for property C36 (see /verif/DESIGN.md). Acyclicity of the stream dependency tree is a
// reachability invariant over a pointer graph held in a map; its re-establishment after re-parenting a whole
// subtree needs a new rank witness for every moved node, which the contract verifier does not attempt.
// Here the REAL adjustStreamPriority is run on every sequence of up to L PRIORITY operations over N open
// streams (every stream, every dependency target including 0 = root, the stream itself, another stream and an
// unknown stream, exclusive or not), starting from the forest in which no stream has a parent; after every
// operation the ancestor walk of every stream must end within N steps (no stream is its own ancestor, and
// the walks of adjustStreamPriority itself terminate: the harness would hang / time out otherwise).

import (
	"fmt"
	"os"
	"testing"
)

type bc36Op struct {
	id, dep uint32
	excl    bool
	close   bool // the stream ends (it leaves the stream table; other streams may still name it as their parent)
}

func bc36Cyclic(streams map[uint32]*stream) (uint32, bool) {
	n := len(streams)
	for id, st := range streams {
		if st == nil {
			continue
		}
		p := st.parent
		for steps := 0; p != nil; steps++ {
			if p == st || steps > n {
				return id, true
			}
			p = p.parent
		}
	}
	return 0, false
}

func bc36Shape(streams map[uint32]*stream, ids []uint32) string {
	s := ""
	for _, id := range ids {
		p := uint32(0)
		if streams[id].parent != nil {
			p = streams[id].parent.id
		}
		s += fmt.Sprintf("%d<-%d ", id, p)
	}
	return s
}

func TestBoundedC36PriorityTree(t *testing.T) {
	nStreams, maxOps := 4, 1
	if os.Getenv("GOVC_BOUNDED_TIER") == "thorough" {
		nStreams, maxOps = 4, 2
	}
	var ids []uint32
	for i := 0; i < nStreams; i++ {
		ids = append(ids, uint32(2*i+1))
	}
	deps := append(append([]uint32{0}, ids...), 99) // 0 = root, 99 = unknown stream
	var ops []bc36Op
	for _, id := range ids {
		for _, d := range deps {
			ops = append(ops, bc36Op{id: id, dep: d}, bc36Op{id: id, dep: d, excl: true})
		}
		ops = append(ops, bc36Op{id: id, close: true})
	}
	// start states: EVERY acyclic dependency forest over the streams (each stream's parent is none or another
	// stream) combined with EVERY subset of streams that has already ended (left the table, still a parent)
	type start struct {
		parent []int // index into ids, -1 = none
		closed int   // bit set
	}
	var starts []start
	par := make([]int, nStreams)
	var gen func(i int)
	gen = func(i int) {
		if i == nStreams {
			// acyclic?
			for s := 0; s < nStreams; s++ {
				p, steps := par[s], 0
				for p >= 0 {
					if p == s || steps > nStreams {
						return
					}
					p = par[p]
					steps++
				}
			}
			for c := 0; c < 1<<nStreams; c++ {
				starts = append(starts, start{append([]int{}, par...), c})
			}
			return
		}
		for p := -1; p < nStreams; p++ {
			if p != i {
				par[i] = p
				gen(i + 1)
			}
		}
	}
	gen(0)
	cases, distinct, nfail, samples := 0, 0, 0, 0
	shapes := map[string]bool{}
	build := func(st start) (map[uint32]*stream, map[uint32]*stream) {
		streams, all := map[uint32]*stream{}, map[uint32]*stream{}
		for _, id := range ids {
			all[id] = &stream{id: id, state: stateOpen}
		}
		for i, id := range ids {
			if st.parent[i] >= 0 {
				all[id].parent = all[ids[st.parent[i]]]
			}
			if st.closed&(1<<i) == 0 {
				streams[id] = all[id]
			}
		}
		return streams, all
	}
	var rec func(st start, seq []bc36Op)
	rec = func(st start, seq []bc36Op) {
		streams, all := build(st)
		bad := ""
		for i, op := range seq {
			if op.close {
				delete(streams, op.id)
			} else {
				adjustStreamPriority(streams, op.id, PriorityParam{StreamDep: op.dep, Exclusive: op.excl, Weight: 15})
			}
			if id, cyc := bc36Cyclic(all); cyc {
				bad = fmt.Sprintf("after operation %d stream %d is its own ancestor (tree: %s)", i+1, id, bc36Shape(all, ids))
				break
			}
		}
		cases++
		sh := fmt.Sprintf("%s|%d", bc36Shape(all, ids), len(streams))
		if !shapes[sh] {
			shapes[sh] = true
			distinct++
			if samples < 3 && len(seq) == maxOps && distinct%40 == 0 {
				samples++
				_, a0 := build(st)
				fmt.Printf("BOUNDED-SAMPLE tree %s(ended streams: bits %04b) + operations %v (stream, depends-on, exclusive, end) -> tree %s: acyclic\n", bc36Shape(a0, ids), st.closed, seq, bc36Shape(all, ids))
			}
		}
		if bad != "" {
			nfail++
			if nfail <= 20 {
				_, a0 := build(st)
				fmt.Printf("BOUNDED-FAIL id=tree[%s]ended[%04b]ops%v :: %s\n", bc36Shape(a0, ids), st.closed, fmt.Sprint(seq), bad)
			}
			return
		}
		if len(seq) == maxOps {
			return
		}
		for _, op := range ops {
			rec(st, append(append([]bc36Op{}, seq...), op))
		}
	}
	for _, st := range starts {
		rec(st, nil)
	}
	fmt.Printf("BOUNDED-CASES n=%d distinct=%d bound=every acyclic dependency forest over %d streams x every subset of already-ended streams (%d start states) x every sequence of 0..%d operations (a PRIORITY for any stream - depending on the root, on any stream incl. itself, an ended or an unknown stream, exclusive or not - or the end of a stream); distinct = (tree, open streams) pairs reached\n", cases, distinct, nStreams, len(starts), maxOps)
}

package bfe_http

// Bounded cross-check for property C25 (see /verif/DESIGN.md). The bytes Header.WriteSubset /
// writeSubsetWithoutSort produce are text assembled through an io.Writer with strings.Replacer, which no
// contract within reach describes. Here every header value over a small alphabet that contains CR, LF, a space
// and a letter (all strings up to a bound, so CR / LF occur first, last and in the middle) is written through
// the REAL functions and the output must be exactly one header line per value: key, ": ", a value without CR
// or LF, CR LF - nothing a client put into a value can start a new line.

import (
	"bytes"
	"fmt"
	"os"
	"strings"
	"testing"
)

func bc25Check(name, val string, out []byte) string {
	s := string(out)
	if !strings.HasSuffix(s, "\r\n") {
		return "output does not end with CR LF"
	}
	body := s[:len(s)-2]
	if strings.ContainsAny(body, "\r\n") {
		return fmt.Sprintf("CR or LF inside the header line: %q", s)
	}
	if !strings.HasPrefix(body, name+": ") {
		return fmt.Sprintf("line does not start with the field name: %q", s)
	}
	return ""
}

func TestBoundedC25HeaderWrite(t *testing.T) {
	maxLen := 5
	if os.Getenv("GOVC_BOUNDED_TIER") == "thorough" {
		maxLen = 7
	}
	alphabet := []byte{'a', ' ', '\r', '\n'}
	cases, distinct, nfail, samples := 0, 0, 0, 0
	var rec func(v []byte)
	rec = func(v []byte) {
		for _, sorted := range []bool{true, false} {
			cases++
			if bytes.ContainsAny(v, "\r\n") {
				distinct++
			}
			h := Header{"X-Probe": []string{string(v)}}
			var buf bytes.Buffer
			var err error
			if sorted {
				err = h.WriteSubset(&buf, nil)
			} else {
				err = h.writeSubsetWithoutSort(&buf, nil)
			}
			verdict := ""
			if err != nil {
				verdict = "write error: " + err.Error()
			} else {
				verdict = bc25Check("X-Probe", string(v), buf.Bytes())
			}
			if verdict != "" {
				nfail++
				if nfail <= 20 {
					fmt.Printf("BOUNDED-FAIL id=sorted:%v/%q :: %s\n", sorted, string(v), verdict)
				}
			} else if samples < 3 && len(v) == 4 && v[0] == '\n' && v[2] == '\r' {
				samples++
				fmt.Printf("BOUNDED-SAMPLE value %q is written as one line %q\n", string(v), buf.String())
			}
		}
		if len(v) == maxLen {
			return
		}
		for _, c := range alphabet {
			rec(append(append([]byte{}, v...), c))
		}
	}
	rec(nil)
	fmt.Printf("BOUNDED-CASES n=%d distinct=%d bound=every header value of length 0..%d over {a, space, CR, LF}, through WriteSubset and writeSubsetWithoutSort; distinct = values containing CR or LF\n", cases, distinct, maxLen)
}

package ipdict

// Bounded stand-in for property C19 (see /verif/DESIGN.md): IPItems.Sort (sort, mergeItems, checkMerge, reslice)
// followed by IPTable.Search, run on the REAL code for every sequence of ranges over a small address universe,
// against the obvious oracle (an address is contained iff it is a loaded single address or lies in a loaded
// range). It also checks that Sort establishes wfPairs, the precondition under which Search is PROVED correct
// for all tables (contract in bfe_util/ipdict/zz_verif_contracts.go).

import (
	"bytes"
	"fmt"
	"net"
	"os"
	"sort"
	"strings"
	"testing"
)

var bc19V6 = []string{"::", "::1", "::2", "::3", "1::"}
var bc19V4 = []string{"0.0.0.0", "0.0.0.1", "0.0.0.2", "0.0.0.3"}
var bc19Probes = []string{"::", "::1", "::2", "::3", "::4", "1::", "1::1", "0.0.0.0", "0.0.0.1", "0.0.0.2", "0.0.0.3", "0.0.0.4", "::fffe:ffff:ffff"}

type bc19Range struct{ s, e string }

func bc19Ranges() []bc19Range {
	var out []bc19Range
	for _, fam := range [][]string{bc19V6, bc19V4} {
		for i := range fam {
			for j := i; j < len(fam); j++ {
				out = append(out, bc19Range{fam[i], fam[j]})
			}
		}
	}
	return out
}

func bc19In(a net.IP, r bc19Range) bool {
	x := a.To16()
	return bytes.Compare(net.ParseIP(r.s).To16(), x) <= 0 && bytes.Compare(x, net.ParseIP(r.e).To16()) <= 0
}

// run one case on the real code; returns "" or a description of what fails
func bc19Run(rs []bc19Range, singles []string) (verdict string) {
	defer func() {
		if r := recover(); r != nil {
			verdict = fmt.Sprintf("panic: %v", r)
		}
	}()
	items, err := NewIPItems(16, 16)
	if err != nil {
		return "NewIPItems: " + err.Error()
	}
	for _, r := range rs {
		if err := items.InsertPair(net.ParseIP(r.s), net.ParseIP(r.e)); err != nil {
			return "InsertPair rejected a valid range: " + err.Error()
		}
	}
	for _, s := range singles {
		if err := items.InsertSingle(net.ParseIP(s)); err != nil {
			return "InsertSingle: " + err.Error()
		}
	}
	items.Sort()
	tb := NewIPTable()
	tb.Update(items)
	for _, p := range bc19Probes {
		ip := net.ParseIP(p)
		want := false
		for _, s := range singles {
			if net.ParseIP(s).Equal(ip) {
				want = true
			}
		}
		for _, r := range rs {
			if bc19In(ip, r) {
				want = true
			}
		}
		if got := tb.Search(ip); got != want {
			return fmt.Sprintf("Search(%s) = %v, want %v", p, got, want)
		}
	}
	// wfPairs (the proved precondition of Search)
	it := items.items
	for k := range it {
		if len(it[k].startIP) != 16 || len(it[k].endIP) != 16 || bytes.Compare(it[k].startIP, it[k].endIP) > 0 {
			return fmt.Sprintf("after Sort item %d is not a non-empty 16-byte range: %v-%v", k, it[k].startIP, it[k].endIP)
		}
	}
	for i := range it {
		for j := i + 1; j < len(it); j++ {
			cs := bytes.Compare(it[j].startIP, it[i].startIP)
			ok := (cs < 0 && bytes.Compare(it[j].endIP, it[i].startIP) < 0) || (cs == 0 && bytes.Compare(it[j].endIP, it[i].endIP) <= 0)
			if !ok {
				return fmt.Sprintf("after Sort items %d (%v-%v) and %d (%v-%v) violate wfPairs", i, it[i].startIP, it[i].endIP, j, it[j].startIP, it[j].endIP)
			}
		}
	}
	return ""
}

func bc19Key(rs []bc19Range, singles []string) string {
	var xs []string
	for _, r := range rs {
		xs = append(xs, r.s+"-"+r.e)
	}
	return "pairs=[" + strings.Join(xs, ",") + "];singles=[" + strings.Join(singles, ",") + "]"
}

// smallest failing sub-case (drop ranges / singles while it still fails), so that one defect has one id
func bc19Minimise(rs []bc19Range, singles []string) ([]bc19Range, []string, string) {
	v := bc19Run(rs, singles)
	for changed := true; changed; {
		changed = false
		for i := range rs {
			cand := append(append([]bc19Range{}, rs[:i]...), rs[i+1:]...)
			if w := bc19Run(cand, singles); w != "" {
				rs, v, changed = cand, w, true
				break
			}
		}
		if changed {
			continue
		}
		for i := range singles {
			cand := append(append([]string{}, singles[:i]...), singles[i+1:]...)
			if w := bc19Run(rs, cand); w != "" {
				singles, v, changed = cand, w, true
				break
			}
		}
	}
	return rs, singles, v
}

func TestBoundedC19Sort(t *testing.T) {
	ranges := bc19Ranges()
	maxLen := 3
	if os.Getenv("GOVC_BOUNDED_TIER") == "thorough" {
		maxLen = 5
	}
	singleSets := [][]string{{}, {"::2", "0.0.0.1"}, {"1::1"}}
	cases, distinct := 0, 0
	fails := map[string]string{}
	var order []string
	samples := 0
	var rec func(prefix []bc19Range)
	rec = func(prefix []bc19Range) {
		for _, ss := range singleSets {
			if len(prefix) > 2 && len(ss) > 0 && len(prefix) == maxLen {
				continue // the longest sequences are run without single addresses
			}
			cases++
			if len(prefix) >= 2 {
				distinct++
			}
			if v := bc19Run(prefix, ss); v != "" {
				mr, ms, mv := bc19Minimise(prefix, ss)
				id := bc19Key(mr, ms)
				if _, dup := fails[id]; !dup {
					fails[id] = mv
					order = append(order, id)
				}
			} else if samples < 3 && len(prefix) == 3 && cases%977 == 0 {
				samples++
				fmt.Printf("BOUNDED-SAMPLE %s -> Sort, then Search agrees with the oracle on %d probes; wfPairs holds\n", bc19Key(prefix, ss), len(bc19Probes))
			}
		}
		if len(prefix) == maxLen {
			return
		}
		for _, r := range ranges {
			rec(append(append([]bc19Range{}, prefix...), r))
		}
	}
	rec(nil)
	sort.Strings(order)
	for _, id := range order {
		fmt.Printf("BOUNDED-FAIL id=%s :: %s (minimised input: %s)\n", strings.ReplaceAll(id, " ", ""), fails[id], id)
	}
	fmt.Printf("BOUNDED-CASES n=%d distinct=%d bound=every ordered sequence of at most %d ranges over the %d ranges of the universe {%s | %s}, with 3 sets of single addresses, %d probe addresses; distinct = sequences of at least two ranges\n",
		cases, distinct, maxLen, len(ranges), strings.Join(bc19V6, " "), strings.Join(bc19V4, " "), len(bc19Probes))
}

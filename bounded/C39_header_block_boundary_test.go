package bfe_spdy

// Bounded cross-check for property C39 (see /verif/DESIGN.md). Header blocks of successive frames share one
// zlib stream, so a frame whose header block is rejected must still be CONSUMED completely, or the next frame
// is misparsed (frame boundary lost). Consumption of the decompressor is a trace property no contract on
// parseHeaderValueBlock states (there is no ghost state for "bytes read so far"). Here every sequence of up to
// three header-carrying frames (SYN_STREAM / SYN_REPLY / HEADERS), each with one of a few header sets - valid
// ones and ones that the reader rejects (invalid name first, in the middle, last; duplicate name) - is written
// with the REAL Framer and read back with a second REAL Framer: every frame after a rejected one must still
// parse to exactly the headers that were written.

import (
	"bytes"
	"fmt"
	"os"
	"reflect"
	"testing"

	http "github.com/bfenetworks/bfe/bfe_http"
)

type bc39Set struct {
	name  string
	names []string // header names in the block, in order (values are fixed)
	valid bool
}

var bc39Sets = []bc39Set{
	{"ok2", []string{"a", "b"}, true},
	{"ok1", []string{"c"}, true},
	{"bad-first", []string{"x y", "b"}, false},
	{"bad-mid", []string{"a", "x\r\ny", "b"}, false},
	{"bad-last", []string{"a", "x:y"}, false},
}

func bc39Frame(kind int, id StreamId, set bc39Set) Frame {
	h := http.Header{}
	for i, n := range set.names {
		h[n] = []string{fmt.Sprintf("v%d", i)}
	}
	switch kind {
	case 0:
		return &SynStreamFrame{StreamId: id, Headers: h}
	case 1:
		return &SynReplyFrame{StreamId: id, Headers: h}
	}
	return &HeadersFrame{StreamId: id, Headers: h}
}

func bc39Headers(f Frame) http.Header {
	switch x := f.(type) {
	case *SynStreamFrame:
		return x.Headers
	case *SynReplyFrame:
		return x.Headers
	case *HeadersFrame:
		return x.Headers
	}
	return nil
}

func bc39Run(kinds []int, sets []int) (verdict string) {
	defer func() {
		if r := recover(); r != nil {
			verdict = fmt.Sprintf("panic: %v", r)
		}
	}()
	var wire bytes.Buffer
	wf, err := NewFramer(&wire, nil)
	if err != nil {
		return "NewFramer: " + err.Error()
	}
	for i := range kinds {
		if err := wf.WriteFrame(bc39Frame(kinds[i], StreamId(2*i+1), bc39Sets[sets[i]])); err != nil {
			return fmt.Sprintf("frame %d: write: %v", i, err)
		}
	}
	rf, err := NewFramer(nil, &wire)
	if err != nil {
		return "NewFramer: " + err.Error()
	}
	for i := range kinds {
		set := bc39Sets[sets[i]]
		f, err := rf.ReadFrame()
		if !set.valid {
			if err == nil {
				return fmt.Sprintf("frame %d (%s): a header name the reader must reject was accepted", i, set.name)
			}
			continue
		}
		if err != nil {
			return fmt.Sprintf("frame %d (%s, valid) after %d earlier frame(s): %v", i, set.name, i, err)
		}
		want := http.Header{}
		for n, v := range bc39Headers(bc39Frame(kinds[i], 0, set)) {
			want[http.CanonicalHeaderKey(n)] = v // the reader stores canonical field names
		}
		if got := bc39Headers(f); !reflect.DeepEqual(map[string][]string(got), map[string][]string(want)) {
			return fmt.Sprintf("frame %d (%s): headers read %v, written %v", i, set.name, got, want)
		}
	}
	return ""
}

func TestBoundedC39HeaderBlockBoundary(t *testing.T) {
	maxFrames := 3
	if os.Getenv("GOVC_BOUNDED_TIER") == "thorough" {
		maxFrames = 4
	}
	cases, distinct, nfail, samples := 0, 0, 0, 0
	var rec func(kinds, sets []int)
	rec = func(kinds, sets []int) {
		if len(kinds) > 0 {
			cases++
			rejected := false
			for _, s := range sets[:len(sets)-1] {
				if !bc39Sets[s].valid {
					rejected = true
				}
			}
			if rejected {
				distinct++
			}
			if v := bc39Run(kinds, sets); v != "" {
				nfail++
				if nfail <= 20 {
					fmt.Printf("BOUNDED-FAIL id=%v/%v :: %s\n", kinds, sets, v)
				}
				return
			} else if samples < 3 && rejected && len(kinds) == 3 && bc39Sets[sets[2]].valid {
				samples++
				fmt.Printf("BOUNDED-SAMPLE frame kinds %v with header sets %v: the frame after the rejected one is read back intact\n", kinds, sets)
			}
		}
		if len(kinds) == maxFrames {
			return
		}
		for k := 0; k < 3; k++ {
			for s := range bc39Sets {
				rec(append(append([]int{}, kinds...), k), append(append([]int{}, sets...), s))
			}
		}
	}
	rec(nil, nil)
	fmt.Printf("BOUNDED-CASES n=%d distinct=%d bound=every sequence of 1..%d SYN_STREAM/SYN_REPLY/HEADERS frames, each with one of %d header sets (2 valid, 3 rejected); distinct = sequences with a rejected frame before the last one\n", cases, distinct, maxFrames, len(bc39Sets))
}

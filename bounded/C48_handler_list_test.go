package bfe_module

// Bounded stand-in for property C48 (see /verif/DESIGN.md): HandlerList.Filter* walk a container/list of
// interface-wrapped closures whose effects are arbitrary; the property is about the ORDER of calls, i.e. a
// history, which a contract on one call cannot state without a ghost trace that every module would have to
// maintain. Every verdict vector of up to 4 registered filters, for each of the five callback kinds, is run on
// the REAL HandlerList: the filters called must be exactly the registration-order prefix up to and including
// the first one whose verdict is not BfeHandlerGoOn, and the list must return that verdict (and, for request
// filters, that filter's response).

import (
	"fmt"
	"os"
	"reflect"
	"testing"

	"github.com/bfenetworks/bfe/bfe_basic"
	"github.com/bfenetworks/bfe/bfe_http"
)

var bc48Verdicts = []int{BfeHandlerFinish, BfeHandlerGoOn, BfeHandlerRedirect, BfeHandlerResponse, BfeHandlerClose}

func bc48Expect(vs []int) (calls []int, ret int, stopper int) {
	ret, stopper = BfeHandlerGoOn, -1
	for i, v := range vs {
		calls = append(calls, i)
		if v != BfeHandlerGoOn {
			return calls, v, i
		}
	}
	return calls, ret, stopper
}

func bc48Run(kind int, vs []int) (verdict string) {
	defer func() {
		if r := recover(); r != nil {
			verdict = fmt.Sprintf("panic: %v", r)
		}
	}()
	var trace []int
	resps := make([]*bfe_http.Response, len(vs))
	hl := NewHandlerList(kind)
	for i, v := range vs {
		i, v := i, v
		resps[i] = &bfe_http.Response{StatusCode: 200 + i}
		var err error
		switch kind {
		case HandlersAccept:
			err = hl.AddAcceptFilter(func(s *bfe_basic.Session) int { trace = append(trace, i); return v })
		case HandlersRequest:
			err = hl.AddRequestFilter(func(r *bfe_basic.Request) (int, *bfe_http.Response) { trace = append(trace, i); return v, resps[i] })
		case HandlersForward:
			err = hl.AddForwardFilter(func(r *bfe_basic.Request) int { trace = append(trace, i); return v })
		case HandlersResponse:
			err = hl.AddResponseFilter(func(r *bfe_basic.Request, res *bfe_http.Response) int { trace = append(trace, i); return v })
		case HandlersFinish:
			err = hl.AddFinishFilter(func(s *bfe_basic.Session) int { trace = append(trace, i); return v })
		}
		if err != nil {
			return "registration refused: " + err.Error()
		}
	}
	var got int
	var gotResp *bfe_http.Response
	switch kind {
	case HandlersAccept:
		got = hl.FilterAccept(nil)
	case HandlersRequest:
		got, gotResp = hl.FilterRequest(nil)
	case HandlersForward:
		got = hl.FilterForward(nil)
	case HandlersResponse:
		got = hl.FilterResponse(nil, nil)
	case HandlersFinish:
		got = hl.FilterFinish(nil)
	}
	wantCalls, wantRet, stopper := bc48Expect(vs)
	if !reflect.DeepEqual(trace, wantCalls) && !(len(trace) == 0 && len(wantCalls) == 0) {
		return fmt.Sprintf("filters called %v, want %v", trace, wantCalls)
	}
	if got != wantRet {
		return fmt.Sprintf("returned verdict %d, want %d", got, wantRet)
	}
	if kind == HandlersRequest && stopper >= 0 && gotResp != resps[stopper] {
		return fmt.Sprintf("returned the response of another filter (want that of filter %d)", stopper)
	}
	return ""
}

func TestBoundedC48HandlerList(t *testing.T) {
	maxN := 4
	if os.Getenv("GOVC_BOUNDED_TIER") == "thorough" {
		maxN = 6
	}
	kinds := []int{HandlersAccept, HandlersRequest, HandlersForward, HandlersResponse, HandlersFinish}
	names := []string{"accept", "request", "forward", "response", "finish"}
	cases, distinct, nfail, samples := 0, 0, 0, 0
	for ki, kind := range kinds {
		var rec func(vs []int)
		rec = func(vs []int) {
			cases++
			if len(vs) >= 2 {
				distinct++
			}
			if v := bc48Run(kind, vs); v != "" {
				nfail++
				if nfail <= 20 {
					fmt.Printf("BOUNDED-FAIL id=%s/%v :: %s (filter verdicts in registration order %v; 1 = go on)\n", names[ki], fmt.Sprint(vs), v, vs)
				}
			} else if samples < 3 && len(vs) == 3 && vs[1] != BfeHandlerGoOn && vs[0] == BfeHandlerGoOn && cases%7 == 0 {
				samples++
				fmt.Printf("BOUNDED-SAMPLE %s filters with verdicts %v -> filters 0,1 called in order, verdict %d returned, filter 2 never called\n", names[ki], vs, vs[1])
			}
			if len(vs) == maxN {
				return
			}
			for _, v := range bc48Verdicts {
				rec(append(append([]int{}, vs...), v))
			}
		}
		rec(nil)
	}
	fmt.Printf("BOUNDED-CASES n=%d distinct=%d bound=every verdict vector of 0..%d registered filters over the 5 verdicts, for each of the 5 callback kinds; distinct = lists of at least two filters\n", cases, distinct, maxN)
}

package condition

// Bounded stand-in for property C16 (see /verif/DESIGN.md): the yacc-generated parser (cond.y.go) is outside the
// reach of the contract verifier (table-driven automaton). Every token string up to a length bound over
// {T, F, !, &&, ||, (, )} is built with the REAL condition.Build and evaluated with the REAL Match, and compared
// with a reference evaluator of the documented grammar (parentheses, then ! right-assoc, then &&, then ||, both
// left-assoc). Ill-formed strings must be rejected with an error, never a panic.

import (
	"fmt"
	"os"
	"sort"
	"strings"
	"testing"

	"github.com/bfenetworks/bfe/bfe_basic"
	"github.com/bfenetworks/bfe/bfe_http"
)

var bc16Toks = []string{"T", "F", "!", "&&", "||", "(", ")"}

type bc16Parser struct {
	toks []string
	pos  int
	bad  bool
}

func (p *bc16Parser) peek() string {
	if p.pos < len(p.toks) {
		return p.toks[p.pos]
	}
	return ""
}
func (p *bc16Parser) or() bool {
	v := p.and()
	for !p.bad && p.peek() == "||" {
		p.pos++
		r := p.and()
		v = v || r
	}
	return v
}
func (p *bc16Parser) and() bool {
	v := p.unary()
	for !p.bad && p.peek() == "&&" {
		p.pos++
		r := p.unary()
		v = v && r
	}
	return v
}
func (p *bc16Parser) unary() bool {
	if p.peek() == "!" {
		p.pos++
		return !p.unary()
	}
	return p.primary()
}
func (p *bc16Parser) primary() bool {
	switch p.peek() {
	case "T":
		p.pos++
		return true
	case "F":
		p.pos++
		return false
	case "(":
		p.pos++
		v := p.or()
		if p.peek() != ")" {
			p.bad = true
			return false
		}
		p.pos++
		return v
	}
	p.bad = true
	return false
}

// reference: (value, well-formed)
func bc16Ref(toks []string) (bool, bool) {
	p := &bc16Parser{toks: toks}
	v := p.or()
	if p.bad || p.pos != len(toks) {
		return false, false
	}
	return v, true
}

func bc16Src(toks []string) string {
	var xs []string
	for _, t := range toks {
		switch t {
		case "T":
			xs = append(xs, `req_method_in("GET")`)
		case "F":
			xs = append(xs, `req_method_in("POST")`)
		default:
			xs = append(xs, t)
		}
	}
	return strings.Join(xs, " ")
}

func bc16Run(toks []string, req *bfe_basic.Request) (verdict string) {
	defer func() {
		if r := recover(); r != nil {
			verdict = fmt.Sprintf("panic: %v", r)
		}
	}()
	want, ok := bc16Ref(toks)
	c, err := Build(bc16Src(toks))
	if !ok {
		if err == nil {
			return "ill-formed expression accepted by Build"
		}
		return ""
	}
	if err != nil {
		return "well-formed expression rejected by Build: " + err.Error()
	}
	if got := c.Match(req); got != want {
		return fmt.Sprintf("evaluates to %v, the documented grammar gives %v", got, want)
	}
	return ""
}

func TestBoundedC16Precedence(t *testing.T) {
	maxLen := 6
	if os.Getenv("GOVC_BOUNDED_TIER") == "thorough" {
		maxLen = 7
	}
	req := &bfe_basic.Request{Session: &bfe_basic.Session{}, HttpRequest: &bfe_http.Request{Method: "GET"}}
	cases, wellFormed := 0, 0
	fails := map[string]string{}
	samples := 0
	var rec func(prefix []string)
	rec = func(prefix []string) {
		if len(prefix) > 0 {
			cases++
			if _, ok := bc16Ref(prefix); ok {
				wellFormed++
				if samples < 3 && len(prefix) == 5 && wellFormed%41 == 0 {
					samples++
					v, _ := bc16Ref(prefix)
					fmt.Printf("BOUNDED-SAMPLE %q -> Build ok, Match = %v as the documented grammar\n", strings.Join(prefix, " "), v)
				}
			}
			if v := bc16Run(prefix, req); v != "" {
				fails[strings.Join(prefix, "")] = fmt.Sprintf("%q %s", strings.Join(prefix, " "), v)
			}
		}
		if len(prefix) == maxLen {
			return
		}
		for _, tk := range bc16Toks {
			rec(append(append([]string{}, prefix...), tk))
		}
	}
	rec(nil)
	// report the shortest failing expressions only (longer ones contain them)
	var ids []string
	for id := range fails {
		ids = append(ids, id)
	}
	sort.Slice(ids, func(i, j int) bool {
		if len(ids[i]) != len(ids[j]) {
			return len(ids[i]) < len(ids[j])
		}
		return ids[i] < ids[j]
	})
	minLen := 0
	for _, id := range ids {
		n := len(strings.Fields(strings.Split(fails[id], "\"")[1]))
		if minLen == 0 {
			minLen = n
		}
		if n > minLen {
			break
		}
		fmt.Printf("BOUNDED-FAIL id=%s :: %s (T = req_method_in(\"GET\"), F = req_method_in(\"POST\") on a GET request)\n", id, fails[id])
	}
	if len(ids) > 0 {
		fmt.Printf("BOUNDED-NOTE %d failing expressions in all; only the shortest (%d tokens) are listed\n", len(ids), minLen)
	}
	fmt.Printf("BOUNDED-CASES n=%d distinct=%d bound=every token string of length 1..%d over {T F ! && || ( )}; distinct = well-formed expressions among them\n", cases, wellFormed, maxLen)
}

package hash_set

// Bounded cross-check for property C20 (see /verif/DESIGN.md). The proved contracts cover the node pool's
// representation invariant, capacity and counters, but not the MEANING of the set (which keys are members after
// a history of Add / Remove): that needs the chains' reachability as an abstract view. Here every sequence of
// Add / Remove operations up to a bound over a small key universe is run on the REAL HashSet, with a hash
// function that makes every key collide (one chain) and with one that spreads them, and compared after every
// step with a Go map: Exist for every key of the universe, Len, and the error / no-error outcome.

import (
	"fmt"
	"os"
	"testing"
)

func bc20Keys() [][]byte {
	return [][]byte{[]byte("aa"), []byte("bb"), []byte("cc"), []byte("dd")}
}

type bc20Op struct {
	add bool
	key int
}

func bc20Run(ops []bc20Op, collide bool, capN int) (verdict string) {
	defer func() {
		if r := recover(); r != nil {
			verdict = fmt.Sprintf("panic: %v", r)
		}
	}()
	keys := bc20Keys()
	h := func(k []byte) uint64 {
		if collide {
			return 7
		}
		return uint64(k[0])
	}
	set, err := NewHashSet(capN, 2, true, h)
	if err != nil {
		return "constructor: " + err.Error()
	}
	model := map[string]bool{}
	for step, op := range ops {
		k := keys[op.key]
		if op.add {
			err := set.Add(k)
			switch {
			case model[string(k)]:
				// adding a member again changes nothing; at capacity the real set answers "full" before it
				// looks the key up, which the property allows (membership is unchanged either way)
				if err != nil && len(model) < capN {
					return fmt.Sprintf("step %d: adding a member again failed below capacity: %v", step, err)
				}
			case len(model) >= capN:
				if err == nil {
					return fmt.Sprintf("step %d: add beyond the capacity %d succeeded", step, capN)
				}
			default:
				if err != nil {
					return fmt.Sprintf("step %d: add failed: %v", step, err)
				}
				model[string(k)] = true
			}
		} else {
			set.Remove(k)
			delete(model, string(k))
		}
		for _, q := range keys {
			if got := set.Exist(q); got != model[string(q)] {
				return fmt.Sprintf("step %d: Exist(%q) = %v, the keys added and not removed say %v", step, q, got, model[string(q)])
			}
		}
		if set.Len() != len(model) {
			return fmt.Sprintf("step %d: Len() = %d, %d keys are members", step, set.Len(), len(model))
		}
	}
	return ""
}

func TestBoundedC20HashSet(t *testing.T) {
	maxOps := 6
	if os.Getenv("GOVC_BOUNDED_TIER") == "thorough" {
		maxOps = 8
	}
	nk := len(bc20Keys())
	cases, distinct, nfail, samples := 0, 0, 0, 0
	for _, collide := range []bool{true, false} {
		for _, capN := range []int{3, 4} {
			var rec func(ops []bc20Op)
			rec = func(ops []bc20Op) {
				if len(ops) > 0 {
					cases++
					if len(ops) >= 3 {
						distinct++
					}
					if v := bc20Run(ops, collide, capN); v != "" {
						nfail++
						if nfail <= 20 {
							fmt.Printf("BOUNDED-FAIL id=collide:%v/cap:%d/%v :: %s\n", collide, capN, ops, v)
						}
						return // longer histories with this prefix fail the same way
					} else if samples < 3 && len(ops) == 5 && collide && !ops[4].add && ops[0].add && ops[1].add && ops[2].add && cases%11 == 0 {
						samples++
						fmt.Printf("BOUNDED-SAMPLE one chain (all keys collide), capacity %d, history %v: membership and Len agree with the model after every step\n", capN, ops)
					}
				}
				if len(ops) == maxOps {
					return
				}
				for k := 0; k < nk; k++ {
					rec(append(append([]bc20Op{}, ops...), bc20Op{true, k}))
					rec(append(append([]bc20Op{}, ops...), bc20Op{false, k}))
				}
			}
			rec(nil)
		}
	}
	fmt.Printf("BOUNDED-CASES n=%d distinct=%d bound=every history of 1..%d Add/Remove operations over 4 keys, for capacities 3 and 4, once with all keys in one chain and once spread; distinct = histories of at least three operations\n", cases, distinct, maxOps)
}

package bal_gslb

// Bounded cross-check for properties C09 and C14 at the sub-cluster level (see /verif/DESIGN.md). BalanceRR.Update - the
// merge of one backend list - is proved; BalanceGslb.Reload / BackendReload repeat the merge one level up and
// are not under contract. Here every short history of gslb and backend reloads over a small universe (two
// sub-clusters, two backends each) is run on the REAL BalanceGslb and compared with a model after every step:
// no panic (a second release of a backend closes a closed channel), the sub-cluster list is the configured
// one IN NAME ORDER whatever the reload history was (C14: the same configuration gives the same list), each listed sub-cluster serves exactly the configured backends, a backend whose sub-cluster and address
// persist is the SAME object (so its availability and counters persist) and is not released, and every
// backend that vanished is released.

import (
	"fmt"
	"os"
	"sort"
	"testing"

	"github.com/bfenetworks/bfe/bfe_balance/backend"
	"github.com/bfenetworks/bfe/bfe_balance/bal_slb"
	"github.com/bfenetworks/bfe/bfe_config/bfe_cluster_conf/cluster_table_conf"
	"github.com/bfenetworks/bfe/bfe_config/bfe_cluster_conf/gslb_conf"
)

var bc09Gslb = []gslb_conf.GslbClusterConf{
	{"s1": 100},
	{"s2": 100},
	{"s1": 100, "s2": 100},
	{"s1": 100, "s2": 0},
	{"s0": 100, "s2": 100}, // s0 sorts before a sub-cluster that survives: the list must be re-sorted on a one-for-one swap
}

// backend sets of one sub-cluster: bit k = backend k+1
func bc09Backends(sub string, mask int) cluster_table_conf.SubClusterBackend {
	var out cluster_table_conf.SubClusterBackend
	for b := 0; b < 3; b++ {
		if mask&(1<<b) == 0 {
			continue
		}
		name := fmt.Sprintf("%s-b%d", sub, b+1)
		addr := fmt.Sprintf("10.0.%s.%d", sub[1:], b+1)
		port, weight := 80, 1
		out = append(out, &cluster_table_conf.BackendConf{Name: &name, Addr: &addr, Port: &port, Weight: &weight})
	}
	return out
}

func bc09Closed(b *backend.BfeBackend) bool {
	select {
	case <-b.CloseChan():
		return true
	default:
		return false
	}
}

// the backends a sub-cluster serves, by address (round robin visits every available backend)
func bc09Serving(sub *SubCluster) map[string]*backend.BfeBackend {
	out := map[string]*backend.BfeBackend{}
	if sub.Len() == 0 {
		return out // the callers of BalanceRR.Balance check this first (SubCluster.balance)
	}
	for i := 0; i < 3*sub.Len()+3; i++ {
		b, err := sub.backends.Balance(bal_slb.WrrSimple, nil)
		if err != nil {
			break
		}
		out[b.GetAddrInfo()] = b
	}
	return out
}

type bc09Step struct {
	gslb     int // index into bc09Gslb, -1: no gslb reload in this step
	m1, m2   int // backend masks for s1 / s2 (-1: sub-cluster absent from the backend table)
}

func bc09Run(steps []bc09Step) (verdict string) {
	defer func() {
		if r := recover(); r != nil {
			verdict = fmt.Sprintf("panic: %v", r)
		}
	}()
	bal := NewBalanceGslb("c")
	model := map[string]map[string]*backend.BfeBackend{} // sub -> addr -> object
	var gone []*backend.BfeBackend
	for si, st := range steps {
		g := bc09Gslb[st.gslb]
		var err error
		if si == 0 {
			err = bal.Init(g)
		} else {
			err = bal.Reload(g)
		}
		if err != nil {
			return fmt.Sprintf("step %d: gslb (re)load refused: %v", si, err)
		}
		for name, set := range model {
			if _, ok := g[name]; !ok {
				for _, b := range set {
					gone = append(gone, b)
				}
				delete(model, name)
			}
		}
		for name := range g {
			if model[name] == nil {
				model[name] = map[string]*backend.BfeBackend{}
			}
		}
		cb := cluster_table_conf.ClusterBackend{}
		if st.m1 >= 0 {
			cb["s1"] = bc09Backends("s1", st.m1)
		}
		if st.m2 >= 0 {
			cb["s2"] = bc09Backends("s2", st.m2)
		}
		if si == 0 {
			bal.BackendInit(cb)
		} else {
			bal.BackendReload(cb)
		}
		// compare
		var names []string
		for _, sub := range bal.subClusters {
			names = append(names, sub.Name)
		}
		var want []string
		for n := range model {
			want = append(want, n)
		}
		sort.Strings(want)
		if fmt.Sprint(names) != fmt.Sprint(want) {
			return fmt.Sprintf("step %d: sub-clusters %v, configured %v", si, names, want)
		}
		for _, sub := range bal.subClusters {
			serving := bc09Serving(sub)
			conf, configured := cb[sub.Name]
			if !configured {
				conf = nil
				for addr := range model[sub.Name] { // untouched by this backend reload
					if serving[addr] != model[sub.Name][addr] {
						return fmt.Sprintf("step %d: %s: backend %s changed although the backend table does not mention its sub-cluster", si, sub.Name, addr)
					}
				}
				if len(serving) != len(model[sub.Name]) {
					return fmt.Sprintf("step %d: %s serves %d backends, %d expected", si, sub.Name, len(serving), len(model[sub.Name]))
				}
				continue
			}
			next := map[string]*backend.BfeBackend{}
			for _, bc := range conf {
				key := bc.AddrInfo()
				b := serving[key]
				if b == nil {
					return fmt.Sprintf("step %d: %s does not serve the configured backend %s", si, sub.Name, key)
				}
				if old := model[sub.Name][key]; old != nil && old != b {
					return fmt.Sprintf("step %d: %s: backend %s persists but is a new object (state lost)", si, sub.Name, key)
				}
				next[key] = b
			}
			if len(serving) != len(next) {
				return fmt.Sprintf("step %d: %s serves %d backends, %d configured", si, sub.Name, len(serving), len(next))
			}
			for addr, old := range model[sub.Name] {
				if next[addr] == nil {
					gone = append(gone, old)
				}
			}
			model[sub.Name] = next
		}
		for _, set := range model {
			for addr, b := range set {
				if bc09Closed(b) {
					return fmt.Sprintf("step %d: live backend %s has been released", si, addr)
				}
			}
		}
		for _, b := range gone {
			if !bc09Closed(b) {
				return fmt.Sprintf("step %d: vanished backend %s was not released", si, b.GetAddrInfo())
			}
		}
	}
	return ""
}

func TestBoundedC09GslbReload(t *testing.T) {
	maxSteps := 3
	masks := []int{-1, 0, 1, 2, 3}
	if os.Getenv("GOVC_BOUNDED_TIER") == "thorough" {
		masks = []int{-1, 0, 1, 2, 3, 7} // a third backend per sub-cluster (all three together)
	}
	cases, distinct, nfail, samples := 0, 0, 0, 0
	var rec func(steps []bc09Step)
	rec = func(steps []bc09Step) {
		if len(steps) > 0 {
			cases++
			if len(steps) >= 2 {
				distinct++
			}
			if v := bc09Run(steps); v != "" {
				nfail++
				if nfail <= 20 {
					fmt.Printf("BOUNDED-FAIL id=%v :: %s\n", steps, v)
				}
				return
			} else if samples < 3 && len(steps) == 3 && steps[0].gslb == 2 && steps[1].gslb == 0 && steps[2].gslb == 2 && steps[0].m1 == 3 && steps[0].m2 == 3 && steps[2].m2 == 1 {
				samples++
				fmt.Printf("BOUNDED-SAMPLE history %v: s2 removed and added again, its old backends released once, s1's backends keep their objects\n", steps)
			}
		}
		if len(steps) == maxSteps {
			return
		}
		for g := range bc09Gslb {
			for _, m1 := range masks {
				for _, m2 := range masks {
					rec(append(append([]bc09Step{}, steps...), bc09Step{g, m1, m2}))
				}
			}
		}
	}
	rec(nil)
	fmt.Printf("BOUNDED-CASES n=%d distinct=%d bound=every history of 1..%d (gslb reload, backend reload) steps over 5 gslb configurations of up to 3 sub-cluster names and %d backend tables per sub-cluster (absent, or any subset of its backends); distinct = histories of at least two steps\n", cases, distinct, maxSteps, len(masks))
}

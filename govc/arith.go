package main

// Integer / boolean operator semantics in both arithmetic modes.

import (
	"fmt"
	"go/token"
	"go/types"
	"math/big"
)

// wrapInt: reduce a mathematical integer term into the range of t (Int mode).
// kind: "addsub" (single overflow possible) or "any".
func (s sorter) wrapInt(term string, t types.Type, kind string) string {
	if s.mode == ModeBV {
		return term
	}
	w := intWidth(t)
	m := pow2(w).String()
	if isUnsigned(t) {
		if kind == "addsub" {
			return fmt.Sprintf("(let ((ws %s)) (ite (>= ws %s) (- ws %s) (ite (< ws 0) (+ ws %s) ws)))", term, m, m, m)
		}
		return fmt.Sprintf("(mod %s %s)", term, m)
	}
	h := pow2(w - 1).String()
	if kind == "addsub" {
		return fmt.Sprintf("(let ((ws %s)) (ite (>= ws %s) (- ws %s) (ite (< ws (- %s)) (+ ws %s) ws)))", term, h, m, h, m)
	}
	return fmt.Sprintf("(let ((wm (mod %s %s))) (ite (>= wm %s) (- wm %s) wm))", term, m, h, m)
}

func bvLit(v int64, w int) string {
	return fmt.Sprintf("(_ bv%s %d)", new(big.Int).Mod(big.NewInt(v), pow2(w)).String(), w)
}

// convert integer term x of type from to type to
func (s sorter) convInt(x string, from, to types.Type) string {
	wf, wt := intWidth(from), intWidth(to)
	if s.mode == ModeBV {
		switch {
		case wf == wt:
			return x
		case wf > wt:
			return fmt.Sprintf("((_ extract %d 0) %s)", wt-1, x)
		default:
			if isUnsigned(from) {
				return fmt.Sprintf("((_ zero_extend %d) %s)", wt-wf, x)
			}
			return fmt.Sprintf("((_ sign_extend %d) %s)", wt-wf, x)
		}
	}
	// Int mode: identity if source range fits in target range
	uf, ut := isUnsigned(from), isUnsigned(to)
	fits := false
	switch {
	case uf == ut:
		fits = wf <= wt
	case uf && !ut:
		fits = wf < wt
	}
	if fits {
		return x
	}
	return s.wrapInt(x, to, "any")
}

// typed binary operation on scalars. wrap=false gives mathematical (unbounded) semantics in Int mode.
// div0 returns a condition that must hold for the operation not to panic ("" if none).
func (e *FnEnc) binop(op token.Token, x, y string, tx, ty types.Type, wrap bool) (res string, noPanic string) {
	s := e.sorter
	if isBoolType(tx) {
		switch op {
		case token.LAND, token.AND:
			return sand(x, y), ""
		case token.LOR, token.OR:
			return sor(x, y), ""
		case token.EQL:
			return seq(x, y), ""
		case token.NEQ, token.XOR:
			return snot(seq(x, y)), ""
		}
		panic("bool binop " + op.String())
	}
	if !isIntType(tx) {
		// refs, strings-as-ids etc: only equality
		switch op {
		case token.EQL:
			return seq(x, y), ""
		case token.NEQ:
			return snot(seq(x, y)), ""
		}
		// opaque (floats, string compare): uninterpreted
		f := e.uf("op_"+op.String()+"_"+typeName(tx), []string{"Int", "Int"}, opResultSort(op))
		return "(" + f + " " + x + " " + y + ")", ""
	}
	uns := isUnsigned(tx)
	w := intWidth(tx)
	if s.mode == ModeBV {
		switch op {
		case token.ADD:
			return "(bvadd " + x + " " + y + ")", ""
		case token.SUB:
			return "(bvsub " + x + " " + y + ")", ""
		case token.MUL:
			return "(bvmul " + x + " " + y + ")", ""
		case token.QUO:
			nz := snot(seq(y, bvLit(0, w)))
			if uns {
				return "(bvudiv " + x + " " + y + ")", nz
			}
			return "(bvsdiv " + x + " " + y + ")", nz
		case token.REM:
			nz := snot(seq(y, bvLit(0, w)))
			if uns {
				return "(bvurem " + x + " " + y + ")", nz
			}
			return "(bvsrem " + x + " " + y + ")", nz
		case token.AND:
			return "(bvand " + x + " " + y + ")", ""
		case token.OR:
			return "(bvor " + x + " " + y + ")", ""
		case token.XOR:
			return "(bvxor " + x + " " + y + ")", ""
		case token.AND_NOT:
			return "(bvand " + x + " (bvnot " + y + "))", ""
		case token.SHL, token.SHR:
			wy := 64
			if ty != nil {
				wy = intWidth(ty)
			}
			yy := y
			over := "false"
			if wy < w {
				yy = fmt.Sprintf("((_ zero_extend %d) %s)", w-wy, y)
			} else if wy > w {
				over = "(bvuge " + y + " " + bvLit(int64(w), wy) + ")"
				yy = fmt.Sprintf("((_ extract %d 0) %s)", w-1, y)
			}
			var r, fill string
			if op == token.SHL {
				r, fill = "(bvshl "+x+" "+yy+")", bvLit(0, w)
			} else if uns {
				r, fill = "(bvlshr "+x+" "+yy+")", bvLit(0, w)
			} else {
				r = "(bvashr " + x + " " + yy + ")"
				fill = "(bvashr " + x + " " + bvLit(int64(w-1), w) + ")"
			}
			return site(over, fill, r), ""
		case token.EQL:
			return seq(x, y), ""
		case token.NEQ:
			return snot(seq(x, y)), ""
		case token.LSS, token.LEQ, token.GTR, token.GEQ:
			m := map[token.Token][2]string{token.LSS: {"bvult", "bvslt"}, token.LEQ: {"bvule", "bvsle"}, token.GTR: {"bvugt", "bvsgt"}, token.GEQ: {"bvuge", "bvsge"}}[op]
			o := m[1]
			if uns {
				o = m[0]
			}
			return "(" + o + " " + x + " " + y + ")", ""
		}
		panic("bv binop " + op.String())
	}
	// Int mode
	wr := func(t string, kind string) string {
		if !wrap {
			return t
		}
		return s.wrapInt(t, tx, kind)
	}
	lit := func(t string) (*big.Int, bool) {
		v, ok := new(big.Int).SetString(t, 10)
		return v, ok
	}
	switch op {
	case token.ADD:
		return wr("(+ "+x+" "+y+")", "addsub"), ""
	case token.SUB:
		return wr("(- "+x+" "+y+")", "addsub"), ""
	case token.MUL:
		return wr("(* "+x+" "+y+")", "any"), ""
	case token.QUO, token.REM:
		nz := snot(seq(y, "0"))
		var q string
		if uns {
			q = "(div " + x + " " + y + ")"
		} else {
			q = fmt.Sprintf("(ite (>= %s 0) (ite (> %s 0) (div %s %s) (- (div %s (- %s)))) (ite (> %s 0) (- (div (- %s) %s)) (div (- %s) (- %s))))", x, y, x, y, x, y, y, x, y, x, y)
		}
		if op == token.QUO {
			return wr(q, "any"), nz
		}
		if uns {
			return "(mod " + x + " " + y + ")", nz
		}
		return "(- " + x + " (* " + y + " " + q + "))", nz
	case token.EQL:
		return seq(x, y), ""
	case token.NEQ:
		return snot(seq(x, y)), ""
	case token.LSS:
		return "(< " + x + " " + y + ")", ""
	case token.LEQ:
		return "(<= " + x + " " + y + ")", ""
	case token.GTR:
		return "(> " + x + " " + y + ")", ""
	case token.GEQ:
		return "(>= " + x + " " + y + ")", ""
	case token.SHL:
		if k, ok := lit(y); ok && k.IsInt64() && k.Int64() < 200 {
			return wr("(* "+x+" "+pow2(int(k.Int64())).String()+")", "any"), ""
		}
	case token.SHR:
		if k, ok := lit(y); ok && k.IsInt64() && k.Int64() < 200 {
			return "(div " + x + " " + pow2(int(k.Int64())).String() + ")", ""
		}
	case token.AND:
		for _, p := range [][2]string{{x, y}, {y, x}} {
			if k, ok := lit(p[1]); ok && k.Sign() >= 0 {
				k1 := new(big.Int).Add(k, big.NewInt(1))
				if k1.BitLen() > 0 && new(big.Int).And(k1, k).Sign() == 0 { // k = 2^n-1
					return "(mod " + p[0] + " " + k1.String() + ")", ""
				}
			}
		}
	}
	// uninterpreted bit operation with basic range facts
	f := e.uf(fmt.Sprintf("bit_%s_%d_%v", opName(op), w, uns), []string{"Int", "Int"}, "Int")
	r := "(" + f + " " + x + " " + y + ")"
	e.rangeFacts = append(e.rangeFacts, s.rangeOf(r, tx))
	if op == token.AND && uns {
		e.rangeFacts = append(e.rangeFacts, "(<= "+r+" "+x+")", "(<= "+r+" "+y+")")
	}
	if op == token.OR && uns {
		e.rangeFacts = append(e.rangeFacts, "(>= "+r+" "+x+")", "(>= "+r+" "+y+")")
	}
	if op == token.SHR && uns {
		e.rangeFacts = append(e.rangeFacts, "(<= "+r+" "+x+")")
	}
	return r, ""
}

func opName(op token.Token) string {
	switch op {
	case token.AND:
		return "and"
	case token.OR:
		return "or"
	case token.XOR:
		return "xor"
	case token.SHL:
		return "shl"
	case token.SHR:
		return "shr"
	case token.AND_NOT:
		return "andnot"
	}
	return op.String()
}

func opResultSort(op token.Token) string {
	switch op {
	case token.EQL, token.NEQ, token.LSS, token.LEQ, token.GTR, token.GEQ:
		return "Bool"
	}
	return "Int"
}

func (e *FnEnc) unop(op token.Token, x string, t types.Type, wrap bool) string {
	s := e.sorter
	switch op {
	case token.NOT:
		return snot(x)
	case token.SUB:
		if s.mode == ModeBV {
			return "(bvneg " + x + ")"
		}
		if !isIntType(t) {
			f := e.uf("neg_"+typeName(t), []string{"Int"}, "Int")
			return "(" + f + " " + x + ")"
		}
		if wrap {
			return s.wrapInt("(- "+x+")", t, "addsub")
		}
		return "(- " + x + ")"
	case token.XOR:
		if s.mode == ModeBV {
			return "(bvnot " + x + ")"
		}
		// ^x = -x-1 (signed) ; max-x (unsigned)
		if isUnsigned(t) {
			return "(- " + new(big.Int).Sub(pow2(intWidth(t)), big.NewInt(1)).String() + " " + x + ")"
		}
		return "(- (- " + x + ") 1)"
	}
	panic("unop " + op.String())
}

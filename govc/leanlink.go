package main

import (
	"crypto/sha256"
	"encoding/hex"
	"encoding/json"
	"fmt"
	"os"
	"os/exec"
	"path/filepath"
	"strings"
	"time"
)

// Lemmas that need induction over a whole history are proved in Lean 4 (Mathlib) over the transition
// relation that govc proves as a postcondition on the real code. /verif/lean/index.json lists, per
// property, the Lean file, the theorems that must be accepted, and the contract clauses the Lean model is a
// transcription of (pinned by the hash of their text: if a pinned clause changes, the link has to be
// re-established by hand and the obligation fails until index.json is updated).
type leanEntry struct {
	Prop     string   `json:"prop"`
	File     string   `json:"file"`
	Theorems []string `json:"theorems"`
	Pins     []struct {
		Pkg    string `json:"pkg"`
		Func   string `json:"func"`
		Label  string `json:"label"`
		Sha256 string `json:"sha256"`
	} `json:"pins"`
	StandsFor string `json:"stands_for"`
}

func loadLean(prop string) []leanEntry {
	b, err := os.ReadFile(filepath.Join(verifDir, "lean", "index.json"))
	if err != nil {
		return nil
	}
	var all []leanEntry
	if json.Unmarshal(b, &all) != nil {
		return nil
	}
	var out []leanEntry
	for _, e := range all {
		if e.Prop == prop {
			out = append(out, e)
		}
	}
	return out
}

func sha(s string) string {
	h := sha256.Sum256([]byte(s))
	return hex.EncodeToString(h[:])
}

// leanObligations: one obligation per theorem (accepted by `lean` without `sorry`, axioms listed) and one
// per pinned contract clause. A successful run is cached by the hash of the Lean file (quick tier only).
func leanObligations(prop, tier string, prog *Program) (obls []*Obligation, assumptions []string) {
	for _, le := range loadLean(prop) {
		path := filepath.Join(verifDir, "lean", le.File)
		src, err := os.ReadFile(path)
		if err != nil {
			obls = append(obls, &Obligation{Name: "lean:" + le.File, Kind: "lean", Backend: "lean4", Status: "failed", Output: err.Error()})
			continue
		}
		// pins
		for _, p := range le.Pins {
			o := &Obligation{Name: fmt.Sprintf("lean-link:%s#ensures[%s]", p.Func, p.Label), Kind: "structure", Backend: "syntactic-scan", Fn: p.Func, Status: "failed"}
			c := prog.contract(p.Pkg, p.Func)
			if c == nil {
				o.Output = "pinned contract not found"
			} else {
				found := false
				for _, en := range c.Ensures {
					if en.Label == p.Label {
						found = true
						if got := sha(en.Src); got == p.Sha256 {
							o.Status = "proved"
						} else {
							o.Output = fmt.Sprintf("the contract clause the Lean model transcribes has changed (sha256 %s, pinned %s): re-establish the correspondence with %s and update lean/index.json\nclause now: %s", got, p.Sha256, le.File, en.Src)
						}
					}
				}
				if !found {
					o.Output = "pinned clause [" + p.Label + "] no longer exists"
				}
			}
			obls = append(obls, o)
		}
		// the Lean run
		t0 := time.Now()
		stamp := filepath.Join(verifDir, "lean", ".accepted_"+sha(string(src))[:16])
		var out string
		ok := false
		if b, err := os.ReadFile(stamp); err == nil && tier != "thorough" {
			out, ok = string(b), true
		} else {
			if strings.Contains(string(src), "sorry") {
				out = "the file contains `sorry`"
			} else {
				probe := string(src) + "\n"
				for _, th := range le.Theorems {
					probe += "#print axioms " + th + "\n"
				}
				tmp, _ := os.MkdirTemp("", "govc-lean-")
				pf := filepath.Join(tmp, "Probe.lean")
				os.WriteFile(pf, []byte(probe), 0o644)
				cmd := exec.Command("lean", pf)
				b, err := cmd.CombinedOutput()
				os.RemoveAll(tmp)
				out = string(b)
				ok = err == nil && !strings.Contains(out, "error:") && !strings.Contains(out, "sorryAx")
				if ok {
					os.WriteFile(stamp, []byte(out), 0o644)
				}
			}
		}
		secs := time.Since(t0).Seconds()
		for _, th := range le.Theorems {
			o := &Obligation{Name: "lean:" + th, Kind: "lean", Backend: "lean4", Secs: secs / float64(len(le.Theorems)), Status: "failed", Output: out}
			if ok && strings.Contains(out, "'"+th+"' depends on axioms") {
				o.Status = "proved"
			} else if ok && strings.Contains(out, "'"+th+"' does not depend on any axioms") {
				o.Status = "proved"
			}
			obls = append(obls, o)
		}
		assumptions = append(assumptions, "Lean 4 kernel + Mathlib (axioms reported by #print axioms: propext, Classical.choice, Quot.sound); the Lean model `"+le.File+"` is a hand transcription of the pinned contract clauses ("+le.StandsFor+")")
	}
	return obls, assumptions
}

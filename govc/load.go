package main

import (
	"bufio"
	"fmt"
	"go/token"
	"go/types"
	"os"
	"path/filepath"
	"sort"
	"strings"

	"golang.org/x/tools/go/packages"
	"golang.org/x/tools/go/ssa"
	"golang.org/x/tools/go/ssa/ssautil"
)

// the repository under verification; GOVC_REPO redirects a development/self-test run to a scratch
// worktree (tools/seeds_regress.sh) — the registered checks never set it
var repoDir = func() string {
	if d := os.Getenv("GOVC_REPO"); d != "" {
		return d
	}
	return "/repo"
}()
const repoMod = "github.com/bfenetworks/bfe"
const contractFileName = "zz_verif_contracts.go"

type Program struct {
	fset      *token.FileSet
	pkgs      map[string]*packages.Package
	ssaProg   *ssa.Program
	ssaPkgs   map[string]*ssa.Package
	contracts map[string]*FuncContract
	specs     map[string]*SpecFunc
	tcontracts map[string]*TypeContract
	lemmas    []*Lemma
	cfiles    []*ContractFile
	tags      map[string]int
	tagTypes  []types.Type
	srcLines  map[string][]string
	pkgInvs   map[string][]*Clause
	roots     map[string]bool
	immCache  []immField
	immErrors []string
	immAssumed []string
}

// findContractFiles: every zz_verif_contracts.go under /repo, with its package import path
func findContractFiles() (map[string]string, error) {
	out := map[string]string{}
	err := filepath.Walk(repoDir, func(p string, info os.FileInfo, err error) error {
		if err != nil {
			return nil
		}
		if info.IsDir() && (info.Name() == ".git" || info.Name() == "vendor") {
			return filepath.SkipDir
		}
		if !info.IsDir() && info.Name() == contractFileName {
			rel, _ := filepath.Rel(repoDir, filepath.Dir(p))
			pp := repoMod
			if rel != "." {
				pp += "/" + filepath.ToSlash(rel)
			}
			out[pp] = p
		}
		return nil
	})
	return out, err
}

func libspecDir() string {
	if d := os.Getenv("GOVC_LIBSPEC"); d != "" {
		return d
	}
	exe, _ := os.Executable()
	return filepath.Join(filepath.Dir(filepath.Dir(filepath.Dir(exe))), "libspec")
}

func loadContracts() (*Program, error) {
	p := &Program{contracts: map[string]*FuncContract{}, specs: map[string]*SpecFunc{}, tcontracts: map[string]*TypeContract{}, tags: map[string]int{}, srcLines: map[string][]string{}}
	files, err := findContractFiles()
	if err != nil {
		return nil, err
	}
	var paths []string
	for pp := range files {
		paths = append(paths, pp)
	}
	sort.Strings(paths)
	for _, pp := range paths {
		cf, err := ParseContractFile(files[pp], pp)
		if err != nil {
			return nil, err
		}
		p.addFile(cf)
	}
	specs, _ := filepath.Glob(filepath.Join(libspecDir(), "*.spec"))
	sort.Strings(specs)
	for _, f := range specs {
		cf, err := ParseContractFile(f, "")
		if err != nil {
			return nil, err
		}
		for _, c := range cf.Funcs {
			c.Trusted = true
			if c.Why == "" {
				c.Why = "libspec " + filepath.Base(f)
			}
		}
		p.addFile(cf)
	}
	return p, nil
}

func (p *Program) addFile(cf *ContractFile) {
	p.cfiles = append(p.cfiles, cf)
	for k, c := range cf.Funcs {
		// a libspec file may switch package with several `package` lines: keys carry the package
		p.contracts[c.PkgPath+"::"+c.Key] = c
		_ = k
	}
	for _, s := range cf.Specs {
		p.specs[s.PkgPath+"::"+s.Name] = s
	}
	for _, t := range cf.Types {
		p.tcontracts[t.PkgPath+"::"+t.Name] = t
	}
	p.lemmas = append(p.lemmas, cf.Lemmas...)
	if len(cf.PkgInvs) > 0 {
		if p.pkgInvs == nil {
			p.pkgInvs = map[string][]*Clause{}
		}
		for _, c := range cf.PkgInvs {
			p.pkgInvs[c.Pkg] = append(p.pkgInvs[c.Pkg], c)
		}
	}
}

func (p *Program) contract(pkgPath, key string) *FuncContract {
	return p.contracts[pkgPath+"::"+key]
}

func (p *Program) findSpec(pkg *types.Package, name string) *SpecFunc {
	if pkg != nil {
		if s := p.specs[pkg.Path()+"::"+name]; s != nil {
			return s
		}
	}
	// libspec / shared specs: package "" or any unique match
	if s := p.specs["::"+name]; s != nil {
		return s
	}
	var found *SpecFunc
	for _, s := range p.specs {
		if s.Name == name {
			if found != nil {
				return nil
			}
			found = s
		}
	}
	return found
}

func (p *Program) isRepoPkg(path string) bool {
	return path == repoMod || strings.HasPrefix(path, repoMod+"/")
}

func (p *Program) load(pkgPaths []string) error {
	cfg := &packages.Config{
		Mode:       packages.LoadSyntax | packages.NeedDeps | packages.NeedModule,
		Dir:        repoDir,
		BuildFlags: []string{"-tags=verif"},
		Env:        append(os.Environ(), "GOFLAGS=-mod=mod", "GOPROXY=off", "GOSUMDB=off", "GOTOOLCHAIN=local"),
		Fset:       token.NewFileSet(),
	}
	pkgs, err := packages.Load(cfg, pkgPaths...)
	if err != nil {
		return err
	}
	nerr := 0
	packages.Visit(pkgs, nil, func(pk *packages.Package) {
		for _, e := range pk.Errors {
			if p.isRepoPkg(pk.PkgPath) {
				fmt.Fprintf(os.Stderr, "load error: %s: %v\n", pk.PkgPath, e)
				nerr++
			}
		}
	})
	if nerr > 0 {
		return fmt.Errorf("the tree does not type-check (%d errors)", nerr)
	}
	p.fset = cfg.Fset
	p.pkgs = map[string]*packages.Package{}
	packages.Visit(pkgs, nil, func(pk *packages.Package) { p.pkgs[pk.PkgPath] = pk })
	prog, spkgs := ssautil.AllPackages(pkgs, ssa.GlobalDebug)
	p.ssaProg = prog
	p.ssaPkgs = map[string]*ssa.Package{}
	p.roots = map[string]bool{}
	for i, sp := range spkgs {
		if sp != nil {
			p.roots[pkgs[i].PkgPath] = true
			sp.Build()
			p.ssaPkgs[pkgs[i].PkgPath] = sp
		}
	}
	for _, sp := range prog.AllPackages() {
		if _, ok := p.ssaPkgs[sp.Pkg.Path()]; !ok {
			p.ssaPkgs[sp.Pkg.Path()] = sp
		}
	}
	return nil
}

func (p *Program) typesPkg(path string) *types.Package {
	if pk := p.pkgs[path]; pk != nil {
		return pk.Types
	}
	return nil
}

func (p *Program) pkgByName(name string) *types.Package {
	var found *types.Package
	for _, pk := range p.pkgs {
		if pk.Types != nil && pk.Types.Name() == name {
			if p.isRepoPkg(pk.PkgPath) {
				return pk.Types
			}
			found = pk.Types
		}
	}
	return found
}

// find the ssa.Function for a contract key in a package
func (p *Program) findFunc(pkgPath, key string) (*ssa.Function, error) {
	if i := strings.LastIndex(key, "$"); i > 0 {
		parent, err := p.findFunc(pkgPath, key[:i])
		if err != nil {
			return nil, err
		}
		if a := findAnon(parent, key[i:]); a != nil {
			return a, nil
		}
		return nil, fmt.Errorf("%s: %s has no function literal %s", pkgPath, key[:i], key[i:])
	}
	pk := p.pkgs[pkgPath]
	if pk == nil || pk.Types == nil {
		return nil, fmt.Errorf("package %s not loaded", pkgPath)
	}
	scope := pk.Types.Scope()
	if strings.HasPrefix(key, "(") {
		rp := strings.Index(key, ").")
		if rp < 0 {
			return nil, fmt.Errorf("bad method key %q", key)
		}
		tn := strings.TrimPrefix(key[1:rp], "*")
		mn := key[rp+2:]
		obj, ok := scope.Lookup(tn).(*types.TypeName)
		if !ok {
			return nil, fmt.Errorf("%s: no type %s", pkgPath, tn)
		}
		ms := types.NewMethodSet(types.NewPointer(obj.Type()))
		for i := 0; i < ms.Len(); i++ {
			m := ms.At(i)
			if m.Obj().Name() == mn {
				f := p.ssaProg.FuncValue(m.Obj().(*types.Func))
				if f == nil {
					return nil, fmt.Errorf("%s: no SSA for %s", pkgPath, key)
				}
				// check receiver pointer-ness matches the key
				_, isPtr := f.Signature.Recv().Type().(*types.Pointer)
				if isPtr != strings.HasPrefix(key, "(*") {
					return nil, fmt.Errorf("%s: %s: receiver kind differs from the contract key", pkgPath, key)
				}
				return f, nil
			}
		}
		return nil, fmt.Errorf("%s: type %s has no method %s", pkgPath, tn, mn)
	}
	obj, ok := scope.Lookup(key).(*types.Func)
	if !ok {
		return nil, fmt.Errorf("%s: no function %s", pkgPath, key)
	}
	f := p.ssaProg.FuncValue(obj)
	if f == nil {
		return nil, fmt.Errorf("%s: no SSA for %s", pkgPath, key)
	}
	return f, nil
}

func (p *Program) typeTag(t types.Type) string {
	n := typeName(t)
	if id, ok := p.tags[n]; ok {
		return fmt.Sprint(id)
	}
	id := len(p.tags) + 1
	p.tags[n] = id
	p.tagTypes = append(p.tagTypes, t)
	return fmt.Sprint(id)
}

func (p *Program) knownTagTypes() []types.Type { return p.tagTypes }

func (p *Program) sourceLine(pos token.Pos) string {
	pp := p.fset.Position(pos)
	if pp.Filename == "" {
		return ""
	}
	ls, ok := p.srcLines[pp.Filename]
	if !ok {
		f, err := os.Open(pp.Filename)
		if err == nil {
			sc := bufio.NewScanner(f)
			sc.Buffer(make([]byte, 1<<20), 1<<20)
			for sc.Scan() {
				ls = append(ls, sc.Text())
			}
			f.Close()
		}
		p.srcLines[pp.Filename] = ls
	}
	if pp.Line-1 < len(ls) && pp.Line >= 1 {
		return strings.TrimSpace(ls[pp.Line-1])
	}
	return ""
}

func (p *Program) pkgByNameOrPath(s string) *types.Package {
	if pk := p.pkgs[s]; pk != nil && pk.Types != nil {
		return pk.Types
	}
	return p.pkgByName(s)
}

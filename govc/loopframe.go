package main

import (
	"fmt"
	"go/token"
	"strings"
)

// loopFrame: automatically generated inductive loop invariant for functions with a modifies clause:
// every heap array the loop writes keeps, at locations the contract does not allow to change and that
// were allocated at function entry, the value it had when the loop was entered.
// assume=true: assumed at the header (after the havoc); assume=false: obligation on a back edge.
func (e *FnEnc) loopFrame(li *loopInfo, pre *State, assume bool) {
	if !e.c.HasMod || li.modAll || pre == nil {
		return
	}
	if e.modAllowed == nil && !e.modAllowedDone {
		e.modAllowedDone = true
		e.modAllowed = e.modifiesSets(e.c, e.entryEnv(), nil)
	}
	if e.modAllowed == nil {
		return // modifies *
	}
	e.allocClosureAxioms()
	alloc0 := quoteSym("$alloc")
	for _, k := range sortedKeys(li.mods) {
		if k == "$alloc" || strings.HasPrefix(k, "R/") || k == ghostClock {
			continue // allocation set / iterator state of a map range: not locations of the program's heap
		}
		if _, known := e.heapSort[k]; !known {
			continue
		}
		cur := e.heapIn(e.st, k)
		was := e.heapIn(pre, k)
		if cur == was {
			continue
		}
		var f string
		switch {
		case strings.HasPrefix(k, "G/"):
			if e.modAllowed[k] != nil {
				continue
			}
			f = seq(cur, was)
		case strings.HasPrefix(k, "E/"):
			exc := "false"
			if a := e.modAllowed[k]; a != nil {
				exc = a("r", "k")
			}
			f = fmt.Sprintf("(forall ((r Int) (k %s)) (! (=> (and (select %s r) (not %s)) (= (select (select %s r) k) (select (select %s r) k))) :pattern ((select (select %s r) k))))", e.sorter.idxSort(), alloc0, exc, cur, was, cur)
		default:
			exc := "false"
			if a := e.modAllowed[k]; a != nil {
				exc = a("r", "")
			}
			f = fmt.Sprintf("(forall ((r Int)) (! (=> (and (select %s r) (not %s)) (= (select %s r) (select %s r))) :pattern ((select %s r))))", alloc0, exc, cur, was, cur)
		}
		if assume {
			e.assume(f)
		} else {
			e.oblige(fmt.Sprintf("loop%d.frame", li.ordinal), k, f, token.NoPos)
		}
	}
}

// ghostClock: the last clock reading, a ghost location libspec/std.spec hangs on the name of time.startNano
// (time.Now: non-decreasing readings). It is not program state: no frame condition applies to it.
const ghostClock = "G/time.startNano/"

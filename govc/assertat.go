package main

import (
	"fmt"
	"go/types"
	"sort"
	"strings"

	"golang.org/x/tools/go/ssa"
)

// `assert[label] at "source text" #k :: expr` — an assertion anchored at the k-th source line (in source
// order, default: the only one) of the function whose text contains the given string; it is an obligation
// at the first instruction of that line (locals visible there may be named) and an assumption afterwards.
// An anchor that no longer exists is a failed structural obligation (the argument does not transfer).
type AssertAt struct {
	Anchor string
	Occ    int
	Assume bool // `assume[label] at ...`: an environment assumption, listed in the evidence, not proved
	C      *Clause
	line   int // resolved source line
	at     ssa.Instruction // resolved anchor instruction
	done   bool
}

func parseAssertAt(rest string) (anchor string, occ int, exprSrc string, err error) {
	rest = strings.TrimSpace(rest)
	if !strings.HasPrefix(rest, "at \"") {
		return "", 0, "", fmt.Errorf("assert[label] at \"text\" [#k] :: expr")
	}
	rest = rest[4:]
	q := strings.Index(rest, "\"")
	if q < 0 {
		return "", 0, "", fmt.Errorf("assert: unterminated anchor text")
	}
	anchor = rest[:q]
	rest = strings.TrimSpace(rest[q+1:])
	if strings.HasPrefix(rest, "#") {
		n := 0
		i := 1
		for i < len(rest) && rest[i] >= '0' && rest[i] <= '9' {
			n = n*10 + int(rest[i]-'0')
			i++
		}
		occ = n
		rest = strings.TrimSpace(rest[i:])
	}
	if !strings.HasPrefix(rest, "::") {
		return "", 0, "", fmt.Errorf("assert: expected `::` before the expression")
	}
	return anchor, occ, strings.TrimSpace(rest[2:]), nil
}

// resolveAsserts finds the source line of every anchored assertion (once per encoding pass).
func (e *FnEnc) resolveAsserts() {
	for _, a := range e.c.Asserts {
		a.done = false
		a.line = 0
		lines := map[int]bool{}
		for _, b := range e.fn.Blocks {
			for _, in := range b.Instrs {
				if _, isDbg := in.(*ssa.DebugRef); isDbg || !in.Pos().IsValid() {
					continue
				}
				if src := e.prog.sourceLine(in.Pos()); src != "" && strings.Contains(src, a.Anchor) {
					lines[e.prog.fset.Position(in.Pos()).Line] = true
				}
			}
		}
		var ls []int
		for l := range lines {
			ls = append(ls, l)
		}
		sort.Ints(ls)
		switch {
		case a.Occ == 0 && len(ls) == 1:
			a.line = ls[0]
		case a.Occ >= 1 && a.Occ <= len(ls):
			a.line = ls[a.Occ-1]
		default:
			a.line = 0
		}
		// the anchor instruction: a call on that line whose callee is named in the anchor text (the point just
		// before the call, after its arguments have been evaluated); otherwise the first instruction of the line
		a.at = nil
		if a.line != 0 {
			var first ssa.Instruction
			for _, b := range e.fn.Blocks {
				for _, in := range b.Instrs {
					if _, isDbg := in.(*ssa.DebugRef); isDbg || !in.Pos().IsValid() || e.prog.fset.Position(in.Pos()).Line != a.line {
						continue
					}
					if first == nil {
						first = in
					}
					if ci, ok := in.(ssa.CallInstruction); ok && a.at == nil {
						name := ""
						if cc := ci.Common(); cc.IsInvoke() {
							name = cc.Method.Name()
						} else if f := cc.StaticCallee(); f != nil {
							name = f.Name()
						}
						if name != "" && strings.Contains(a.Anchor, name+"(") {
							a.at = in
						}
					}
				}
			}
			if a.at == nil {
				a.at = first
			}
		}
		switch {
		case a.line != 0:
		default:
			if e.pass == 2 {
				e.structural = append(e.structural, fmt.Sprintf("assertion [%s] is anchored at source text %q (#%d) but the function now has %d such lines: the argument proved on the unchanged tree no longer applies to this code", a.C.Label, a.Anchor, a.Occ, len(ls)))
			}
		}
	}
}

// called before each instruction is encoded
func (e *FnEnc) assertsAt(b *ssa.BasicBlock, idx int, in ssa.Instruction) {
	if len(e.c.Asserts) == 0 || e.pass != 2 || !in.Pos().IsValid() {
		return
	}
	if _, isDbg := in.(*ssa.DebugRef); isDbg {
		return
	}
	for _, a := range e.c.Asserts {
		if a.done || a.at == nil || a.at != in {
			continue
		}
		a.done = true
		env := e.instrEnv(b, idx)
		t := e.evalBool(a.C.E, env, a.C)
		e.flushFacts()
		if a.Assume {
			e.note("ASSUMED at `" + a.Anchor + "` in " + e.key + " [" + a.C.Label + "]: " + a.C.Src)
		} else {
			e.oblige("assert", a.C.Label, t, in.Pos())
		}
		e.assume(t)
	}
}

// names visible just before instruction idx of block b
func (e *FnEnc) instrEnv(b *ssa.BasicBlock, idx int) *specEnv {
	env := e.pointEnv(b, nil, nil)
	// visited(k) names the iterator of the innermost map-range loop around this point
	var best *loopInfo
	for _, lo := range e.loops {
		if !lo.blocks[b] {
			continue
		}
		if r := e.loopRange(lo); r != nil && (best == nil || len(lo.blocks) < len(best.blocks)) {
			best = lo
			env.visRange = r
		}
	}
	outer := env.lookup
	env.lookup = func(name string) (Val, bool) {
		// this block up to the point, then the blocks that dominate it (nearest first)
		type span struct {
			b  *ssa.BasicBlock
			hi int
		}
		spans := []span{{b, idx - 1}}
		for d := b.Idom(); d != nil; d = d.Idom() {
			spans = append(spans, span{d, len(d.Instrs) - 1})
		}
		for si, sp := range spans {
			for i := sp.hi; i >= 0; i-- {
				if si == 0 {
					break // the point's own block is handled below (it also knows Allocs)
				}
				if ph, isPhi := sp.b.Instrs[i].(*ssa.Phi); isPhi && ph.Comment == name {
					// the variable's value on entry to a dominating block (e.g. the enclosing loop's header) and
					// not redefined since: a later definition would have been found first
					if v, have := e.vals[ph]; have {
						return v, true
					}
				}
				dr, ok := sp.b.Instrs[i].(*ssa.DebugRef)
				if !ok {
					continue
				}
				if dr.Object() != nil && dr.Object().Name() == name {
					if tv, isVar := dr.Object().(*types.Var); !isVar || tv.IsField() { // a selector x.f also has a DebugRef, for the FIELD object f
						continue
					}
					if _, have := e.vals[dr.X]; !have || !debugRefIsTheVariable(dr) {
						continue
					}
					if dr.IsAddr {
						return e.deref(e.val(dr.X)), true
					}
					return e.val(dr.X), true
				}
			}
			if si == 0 {
				if v, ok := lookupInBlock(e, b, idx, name); ok {
					return v, true
				}
			}
		}
		return outer(name)
	}
	return env
}

// A debug reference for an identifier used where a conversion is implied (`Body: body` with an interface-typed
// field) carries the CONVERTED value; only references whose value has the variable's own type denote the variable.
func debugRefIsTheVariable(dr *ssa.DebugRef) bool {
	obj := dr.Object()
	if obj == nil || dr.X == nil {
		return false
	}
	if dr.IsAddr {
		if pt, ok := dr.X.Type().Underlying().(*types.Pointer); ok {
			return types.Identical(pt.Elem(), obj.Type())
		}
		return false
	}
	return types.Identical(dr.X.Type(), obj.Type())
}

func lookupInBlock(e *FnEnc, b *ssa.BasicBlock, idx int, name string) (Val, bool) {
	{
		for i := idx - 1; i >= 0; i-- {
			switch x := b.Instrs[i].(type) {
			case *ssa.DebugRef:
				if x.Object() != nil && x.Object().Name() == name {
					if tv, isVar := x.Object().(*types.Var); !isVar || tv.IsField() {
						continue
					}
					if _, have := e.vals[x.X]; !have || !debugRefIsTheVariable(x) {
						continue
					}
					if x.IsAddr {
						return e.deref(e.val(x.X)), true
					}
					return e.val(x.X), true
				}
			case *ssa.Alloc:
				if x.Comment == name {
					return e.deref(e.val(x)), true
				}
			case *ssa.Phi:
				if x.Comment == name {
					if v, have := e.vals[x]; have {
						return v, true
					}
				}
			}
		}
	}
	return Val{}, false
}

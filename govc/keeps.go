package main

import (
	"fmt"
	"strings"
)

// havocAllKeeping: an opaque call that may write anything except the listed locations
// (`frame <callee> keeps a.b, any T.f, ...` — an assumption recorded in the evidence).
// Locations are evaluated over the function's parameters in the state before the call.
func (e *FnEnc) havocAllKeeping(list string) {
	c := &FuncContract{Key: e.c.Key, PkgPath: e.c.PkgPath, Loops: map[int]*LoopSpec{}, Opaque: map[string]string{}}
	for _, it := range splitTop(list) {
		it = strings.TrimSpace(it)
		if it == "" {
			continue
		}
		if strings.HasPrefix(it, "any ") {
			tf := strings.TrimSpace(it[4:])
			dot := strings.LastIndex(tf, ".")
			if dot <= 0 {
				unsup("frame ... keeps any T.field")
			}
			c.Modifies = append(c.Modifies, ModItem{Src: it, AnyType: tf[:dot], AnyField: tf[dot+1:]})
			continue
		}
		x, err := ParseExpr(strings.ReplaceAll(it, "[..]", "[:]"))
		if err != nil {
			unsup("frame ... keeps %s: %v", it, err)
		}
		c.Modifies = append(c.Modifies, ModItem{Src: it, E: x})
	}
	// parameters, and the locals visible at the call (by source name, through debug information)
	env := e.instrEnv(e.curBlock, e.curIdx)
	for k, v := range e.params {
		env.vars[k] = v
	}
	var ts []modTarget
	func() {
		defer func() {
			if r := recover(); r != nil {
				if se, ok := r.(specErr); ok {
					panic(unsupported{"frame ... keeps " + list + ": " + se.msg})
				}
				panic(r)
			}
		}()
		ts, _ = e.modTargets(c, env)
	}()
	olds := make([]string, len(ts))
	for i, t := range ts {
		olds[i] = e.heapArr(t.name, t.sort)
	}
	e.havocAll()
	for i, t := range ts {
		nw := e.heapArr(t.name, t.sort)
		switch {
		case t.whole:
			e.assume(seq(nw, olds[i]))
		case t.ref != "" && t.ref != "?":
			e.assume(seq("(select "+nw+" "+t.ref+")", "(select "+olds[i]+" "+t.ref+")"))
		default:
			e.assume(fmt.Sprintf("(forall ((r Int)) (! (=> %s (= (select %s r) (select %s r))) :pattern ((select %s r))))", t.allow("r"), nw, olds[i], nw))
		}
	}
}

package main

import (
	"fmt"
	"go/types"
	"strings"
)

// Go statement(s) that snapshot *name (a pointer-to-struct parameter) into old_name, deep-copying slice fields
func snapshotPtr(name string, t types.Type, qual func(types.Type) string) string {
	var b strings.Builder
	fmt.Fprintf(&b, "\tvar old_%s = %s; if %s != nil { c := *%s; ", name, name, name, name)
	if pt, ok := t.Underlying().(*types.Pointer); ok {
		if st, ok := pt.Elem().Underlying().(*types.Struct); ok {
			for i := 0; i < st.NumFields(); i++ {
				f := st.Field(i)
				if sl, ok := f.Type().Underlying().(*types.Slice); ok {
					if _, basic := sl.Elem().Underlying().(*types.Basic); basic {
						fmt.Fprintf(&b, "if %s.%s != nil { c.%s = append(%s{}, %s.%s...) }; ", name, f.Name(), f.Name(), qual(f.Type()), name, f.Name())
					}
				}
			}
		}
	}
	fmt.Fprintf(&b, "old_%s = &c }", name)
	return b.String()
}

package main

import (
	"go/types"
	"strings"
)

// goTypeName renders a contract type name ("*T", "pkg.T", "*pkg.T") as Go source inside package pkg
func goTypeName(s string, pkg *types.Package) string {
	prefix := ""
	for strings.HasPrefix(s, "*") {
		prefix += "*"
		s = s[1:]
	}
	if i := strings.LastIndex(s, "."); i >= 0 && pkg != nil && s[:i] == pkg.Name() {
		s = s[i+1:]
	}
	return prefix + s
}

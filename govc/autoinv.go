package main

// Automatically generated counter invariants. For a loop variable v whose every back-edge value is
// "v + positive constant":
//   (a) v >= entry value;
//   (b) if the loop guard is CMP(x, N) with N defined outside the loop and x is either the back-edge
//       value itself (range loops) or v (for loops):   v == entry  ||  "the guard held for the value
//       that became v".
// Both are assumed at the header and PROVED on every back edge (obligations like any user invariant),
// so they are sound also under machine-integer wrap-around.

import (
	"fmt"
	"go/constant"
	"go/token"

	"golang.org/x/tools/go/ssa"
)

type autoInv struct {
	phi   *ssa.Phi
	entry string
	// guard-based part
	cmp   token.Token
	bound ssa.Value
	step  string // constant step term when the guard tests the phi itself, "" when it tests the back value
	label string
}

func (e *FnEnc) cmpTerm(op token.Token, a, b string, phi *ssa.Phi) string {
	r, _ := e.binop(op, a, b, phi.Type(), phi.Type(), false)
	return r
}

func (e *FnEnc) inLoop(li *loopInfo, v ssa.Value) bool {
	if in, ok := v.(ssa.Instruction); ok {
		return li.blocks[in.Block()]
	}
	return false
}

func (e *FnEnc) autoFormula(a autoInv, v string) string {
	ge := e.cmpTerm(token.GEQ, v, a.entry, a.phi)
	if a.bound == nil {
		return ge
	}
	n := e.val(a.bound).L[0]
	if a.step == "" {
		return sand(ge, sor(seq(v, a.entry), e.cmpTerm(a.cmp, v, n, a.phi)))
	}
	prev, _ := e.binop(token.SUB, v, a.step, a.phi.Type(), a.phi.Type(), true)
	lo, _ := e.binop(token.ADD, a.entry, a.step, a.phi.Type(), a.phi.Type(), true)
	return sand(ge, sor(seq(v, a.entry), sand(e.cmpTerm(token.GEQ, v, lo, a.phi), e.cmpTerm(a.cmp, prev, n, a.phi))))
}

func (e *FnEnc) autoCounterInvariants(li *loopInfo, phis []*ssa.Phi, entryVals map[*ssa.Phi]Val) {
	li.auto = nil
	h := li.header
	var guard *ssa.BinOp
	if len(h.Instrs) > 0 {
		if iff, ok := h.Instrs[len(h.Instrs)-1].(*ssa.If); ok {
			if b, ok := iff.Cond.(*ssa.BinOp); ok && (b.Op == token.LSS || b.Op == token.LEQ) && li.blocks[h.Succs[0]] && !li.blocks[h.Succs[1]] {
				guard = b
			}
		}
	}
	for _, p := range phis {
		if !isIntType(p.Type()) {
			continue
		}
		ok, nback := true, 0
		var backVal ssa.Value
		var stepC *ssa.Const
		for i, pred := range h.Preds {
			if !e.backEdge[[2]*ssa.BasicBlock{pred, h}] {
				continue
			}
			nback++
			b, isBin := p.Edges[i].(*ssa.BinOp)
			if !isBin || b.Op != token.ADD {
				ok = false
				break
			}
			var c *ssa.Const
			if b.X == ssa.Value(p) {
				c, _ = b.Y.(*ssa.Const)
			} else if b.Y == ssa.Value(p) {
				c, _ = b.X.(*ssa.Const)
			}
			if c == nil || c.Value == nil || c.Value.Kind() != constant.Int || constant.Sign(c.Value) <= 0 {
				ok = false
				break
			}
			if backVal != nil && backVal != ssa.Value(b) {
				ok = false // different back-edge expressions: keep it simple
				break
			}
			backVal, stepC = b, c
		}
		ev, has := entryVals[p]
		if !ok || nback == 0 || !has || len(ev.L) != 1 {
			continue
		}
		a := autoInv{phi: p, entry: ev.L[0], label: "counter " + p.Comment + " stays between its start and the loop bound"}
		if guard != nil && !e.inLoop(li, guard.Y) && types_identical(guard.X.Type(), p.Type()) && types_identical(guard.Y.Type(), p.Type()) {
			switch {
			case guard.X == backVal:
				a.cmp, a.bound = guard.Op, guard.Y
			case guard.X == ssa.Value(p):
				a.cmp, a.bound = guard.Op, guard.Y
				a.step = e.constVal(stepC).L[0]
			}
		}
		if a.bound == nil {
			continue // without a bounding guard the invariant's preservation is not provable in general: do not generate it
		}
		e.assume(e.autoFormula(a, e.vals[p].L[0]))
		e.flushFacts()
		li.auto = append(li.auto, a)
	}
}

func (e *FnEnc) autoCounterPreserve(li *loopInfo, from *ssa.BasicBlock) {
	idx := -1
	for i, p := range li.header.Preds {
		if p == from {
			idx = i
		}
	}
	if idx < 0 {
		return
	}
	for _, a := range li.auto {
		v := e.val(a.phi.Edges[idx])
		t := e.autoFormula(a, v.L[0])
		e.flushFacts()
		e.oblige(fmt.Sprintf("loop%d.auto", li.ordinal), a.label, t, token.NoPos)
	}
}

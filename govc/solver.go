package main

import (
	"bytes"
	"context"
	"fmt"
	"os"
	"os/exec"
	"path/filepath"
	"regexp"
	"strings"
	"sync"
	"time"
)

type solverSpec struct {
	name string
	args func(file string, timeout time.Duration, seed int) []string
	delay time.Duration
}

var solvers = []solverSpec{
	{"z3-new", func(f string, t time.Duration, seed int) []string {
		return []string{"z3-new", fmt.Sprintf("-T:%d", int(t.Seconds())+1), fmt.Sprintf("smt.random_seed=%d", seed), f}
	}, 0},
	{"z3", func(f string, t time.Duration, seed int) []string {
		return []string{"z3", fmt.Sprintf("-T:%d", int(t.Seconds())+1), fmt.Sprintf("smt.random_seed=%d", seed), f}
	}, 1200 * time.Millisecond},
	{"cvc5", func(f string, t time.Duration, seed int) []string {
		return []string{"cvc5", "--full-saturate-quant", fmt.Sprintf("--tlimit=%d", t.Milliseconds()), fmt.Sprintf("--seed=%d", seed), f}
	}, 1200 * time.Millisecond},
}

type solveResult struct {
	status  string // unsat | sat | unknown
	backend string
	secs    float64
	output  string
	all     map[string]string // per-backend status (thorough)
	malformed string          // a back end reported a parse/sort error in the query
}

func (o *Obligation) query(models bool) string {
	e := o.enc
	var b strings.Builder
	if e == nil {
		return ""
	}
	if models {
		b.WriteString("(set-option :produce-models true)\n")
	}
	b.WriteString("(set-logic ALL)\n")
	for _, d := range e.decls {
		b.WriteString(d)
		b.WriteByte('\n')
	}
	for _, d := range e.specDefs {
		b.WriteString(d)
		b.WriteByte('\n')
	}
	var keep []bool
	if !o.Cover && os.Getenv("GOVC_NOPRUNE") == "" {
		e.pruneMu.Lock()
		keep = e.prune(o.nAsserts, o.Guard, o.Goal)
		e.pruneMu.Unlock()
	}
	for i, a := range e.asserts[:o.nAsserts] {
		if keep != nil && !keep[i] {
			continue
		}
		b.WriteString("(assert ")
		b.WriteString(a)
		b.WriteString(")\n")
	}
	if o.Guard != "" && o.Guard != "true" {
		b.WriteString("(assert " + o.Guard + ")\n")
	}
	if !o.Cover {
		b.WriteString("(assert (not " + o.Goal + "))\n")
	}
	b.WriteString("(check-sat)\n")
	if models {
		b.WriteString("(get-model)\n")
	}
	return b.String()
}

func firstWord(out string) string {
	for _, ln := range strings.Split(out, "\n") {
		ln = strings.TrimSpace(ln)
		switch ln {
		case "sat", "unsat", "unknown", "timeout":
			if ln == "timeout" {
				return "unknown"
			}
			return ln
		}
	}
	return "unknown"
}

// runSolvers races the back ends on one query. wantAll: wait for every back end (cross-check).
func runSolvers(file string, timeout time.Duration, seed int, wantAll bool) solveResult {
	ctx, cancel := context.WithCancel(context.Background())
	defer cancel()
	type r struct {
		name, status, out string
		secs              float64
	}
	ch := make(chan r, len(solvers))
	var wg sync.WaitGroup
	for _, s := range solvers {
		s := s
		wg.Add(1)
		go func() {
			defer wg.Done()
			if s.delay > 0 && !wantAll {
				select {
				case <-time.After(s.delay):
				case <-ctx.Done():
					ch <- r{s.name, "skipped", "", 0}
					return
				}
			}
			argv := s.args(file, timeout, seed)
			c2, cancel2 := context.WithTimeout(ctx, timeout+2*time.Second)
			defer cancel2()
			cmd := exec.CommandContext(c2, argv[0], argv[1:]...)
			var out bytes.Buffer
			cmd.Stdout = &out
			cmd.Stderr = &out
			t0 := time.Now()
			cmd.Run()
			ch <- r{s.name, firstWord(out.String()), out.String(), time.Since(t0).Seconds()}
		}()
	}
	res := solveResult{status: "unknown", all: map[string]string{}}
	var outs []string
	for i := 0; i < len(solvers); i++ {
		x := <-ch
		if x.status == "skipped" {
			continue
		}
		res.all[x.name] = x.status
		if res.malformed == "" {
			for _, ln := range strings.Split(x.out, "\n") {
				if strings.HasPrefix(strings.TrimSpace(ln), "(error") && !strings.Contains(ln, "model is not available") && !strings.Contains(ln, "annot get model") && !strings.Contains(ln, "annot get value") {
					res.malformed = x.name + ": " + trimOut(ln)
					break
				}
			}
		}
		outs = append(outs, fmt.Sprintf("--- %s (%.2fs): %s", x.name, x.secs, trimOut(x.out)))
		if (x.status == "unsat" || x.status == "sat") && res.status == "unknown" {
			res.status, res.backend, res.secs = x.status, x.name, x.secs
			if x.status == "sat" {
				res.output = x.out
			}
			if !wantAll {
				cancel()
			}
		}
	}
	wg.Wait()
	if res.output == "" {
		res.output = strings.Join(outs, "\n")
	}
	return res
}

func trimOut(s string) string {
	if len(s) > 1500 {
		return s[:1500] + "…"
	}
	return s
}

var modelRe = regexp.MustCompile(`\(define-fun\s+(\|[^|]*\||[^\s()]+)\s+\(\)\s+(\([^()]*\)|[^\s()]+)\s+`)

// parseModel extracts 0-ary definitions from a z3/cvc5 model.
func parseModel(out string) map[string]string {
	m := map[string]string{}
	idx := modelRe.FindAllStringSubmatchIndex(out, -1)
	for _, ix := range idx {
		name := out[ix[2]:ix[3]]
		// value: balanced s-expression starting at ix[1]
		j := ix[1]
		for j < len(out) && (out[j] == ' ' || out[j] == '\n') {
			j++
		}
		k := j
		if k < len(out) && out[k] == '(' {
			d := 0
			for ; k < len(out); k++ {
				if out[k] == '(' {
					d++
				} else if out[k] == ')' {
					d--
					if d == 0 {
						k++
						break
					}
				}
			}
		} else {
			for k < len(out) && out[k] != ')' && out[k] != '\n' && out[k] != ' ' {
				k++
			}
		}
		m[strings.Trim(name, "|")] = strings.Join(strings.Fields(out[j:k]), " ")
	}
	return m
}

type runner struct {
	dir     string
	timeout time.Duration
	seed    int
	thorough bool
	mu      sync.Mutex
	n       int
}

func (r *runner) discharge(o *Obligation) {
	// clauses with several return points: decide each return separately first (smaller, ite-free queries)
	if len(o.subs) > 0 && !o.triedSubs {
		o.triedSubs = true
		all := true
		total := 0.0
		for _, s := range o.subs {
			r.discharge(s)
			total += s.Secs
			if s.Status == "failed" {
				o.Status, o.Output, o.Model, o.Backend, o.Secs = "failed", s.Name+"\n"+s.Output, s.Model, s.Backend, total
				o.Guard, o.Goal, o.nAsserts = s.Guard, s.Goal, s.nAsserts
				return
			}
			if s.Status == "error" {
				o.Status, o.Output = "error", s.Name+"\n"+s.Output
				return
			}
			if s.Status != "proved" {
				all = false
				break
			}
		}
		if all {
			o.Status, o.Backend, o.Secs = "proved", o.subs[0].Backend, total
			return
		}
	}
	r.mu.Lock()
	r.n++
	id := r.n
	r.mu.Unlock()
	file := filepath.Join(r.dir, fmt.Sprintf("q%04d.smt2", id))
	q := o.query(true)
	os.WriteFile(file, []byte(q), 0o644)
	to := r.timeout
	if o.Cover && to > 4*time.Second && !r.thorough {
		to = 4 * time.Second
	}
	res := runSolvers(file, to, r.seed, false)
	if res.status == "unknown" && !o.Cover && !r.thorough && (res.all["z3"] == "timeout" || res.all["z3-new"] == "timeout" || res.all["z3-new"] == "") {
		// a z3 back end ran out of time rather than giving up: most likely machine load; one retry with a
		// longer limit keeps a loaded machine from turning a 5 s proof into an alarm
		res = runSolvers(file, 4*to, r.seed, false)
	}
	o.Backend, o.Secs = res.backend, res.secs
	o.file = file
	if res.malformed != "" && !strings.Contains(res.malformed, "model is not available") {
		o.Status, o.Output = "error", res.malformed // never a verdict
		return
	}
	switch res.status {
	case "unsat":
		if o.Cover {
			o.Status = "failed"
			o.Output = "cover query is unsat: the obligation point is unreachable under the assumptions (vacuous)"
		} else {
			o.Status = "proved"
		}
	case "sat":
		if o.Cover {
			o.Status = "proved"
		} else {
			o.Status = "failed"
			o.Output = res.output
			o.Model = parseModel(res.output)
		}
	default:
		o.Status = "unknown"
		o.Output = res.output
		if strings.Contains(res.output, "(error ") && !strings.Contains(res.output, "model is not available") {
			o.Status = "error" // malformed query: an engine defect, never a verdict
		}
		// undecided as a whole: try the per-return decomposition
		if len(o.subs) > 0 && !o.triedSubs {
			all := true
			total := 0.0
			for _, s := range o.subs {
				r.discharge(s)
				total += s.Secs
				if s.Status == "failed" {
					o.Status, o.Output, o.Model, o.Backend = "failed", s.Name+"\n"+s.Output, s.Model, s.Backend
					o.Guard, o.Goal, o.nAsserts = s.Guard, s.Goal, s.nAsserts
					all = false
					break
				}
				if s.Status != "proved" {
					o.Output = s.Name + " undecided\n" + s.Output
					all = false
					break
				}
			}
			if all {
				o.Status, o.Backend, o.Secs = "proved", o.subs[0].Backend+" (per-return)", total
			}
		}
	}
	o.file = file
}

package main

import "go/types"

func types_identical(a, b types.Type) bool { return types.Identical(a, b) }

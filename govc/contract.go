package main

// Parser for contract files: comment-only Go files (//go:build verif) in /repo/<pkg>/zz_verif_contracts.go
// and library specs in /verif/libspec/*.spec (same syntax, plus a leading `//@ package <path>` line).

import (
	"fmt"
	"os"
	"sort"
	"strconv"
	"strings"
)

type Clause struct {
	Kind  string
	Label string
	Src   string
	E     Expr
	File  string
	Line  int
	Pkg   string
}

type LoopSpec struct {
	Invs []*Clause
}

type ModItem struct {
	Src string
	E   Expr // location expression; "x[..]" parsed as ESlice with nil bounds
	All bool // "*"
	AnyType, AnyField string // "any T.f"
}

type FuncContract struct {
	Key      string // "removePadding" | "(*FixedBuffer).Write" | "(Condition).Match"
	PkgPath  string
	Props    []string
	Arith    string
	NoPanic  bool
	NoPanicKinds map[string]bool // empty = every kind; else only these kinds (typeassert, panic, index, ...) are obligations
	Trusted  bool // contract is assumed (library / abstract interface method / not verified)
	Why      string
	Requires []*Clause
	Ensures  []*Clause
	Asserts  []*AssertAt // `assert[label] at "source text" #k :: expr`
	Modifies []ModItem
	HasMod   bool
	Loops    map[int]*LoopSpec
	Lets     []letDef
	Notes    []string // free-form assumption notes ("assume ...")
	Opaque   map[string]string // callee name pattern -> frame treatment "pure" (assume_frame)
	File     string
	Line     int
	used     bool
}

type letDef struct {
	Name string
	E    Expr
}

type SpecParam struct{ Name, Typ string }

type SpecFunc struct {
	Name    string
	PkgPath string
	Params  []SpecParam
	Ret     string
	Body    Expr
	Rec     bool
	File    string
	Line    int
}

type TypeContract struct {
	Name      string
	PkgPath   string
	Invs      []*Clause
	Props     []string
	Immutable []string // fields never stored to after the object's construction (checked syntactically)
	File      string
	Line      int
}

type Lemma struct {
	Name    string
	PkgPath string
	Props   []string
	Params  []SpecParam
	Arith   string
	Hyps    []*Clause
	Concl   []*Clause
	Steps   []*Clause // hyp / call / concl in source order
	File    string
	Line    int
}

type ContractFile struct {
	PkgPath string
	Funcs   map[string]*FuncContract
	Specs   map[string]*SpecFunc
	Types   map[string]*TypeContract
	Lemmas  []*Lemma
	PkgInvs []*Clause
	Order   []string
}

var clauseKw = map[string]bool{"func": true, "type": true, "spec": true, "lemma": true, "props": true, "arith": true,
	"nopanic": true, "assert": true, "assume": true, "requires": true, "ensures": true, "modifies": true, "loop": true, "let": true, "trusted": true, "assumes": true,
	"invariant": true, "note": true, "package": true, "frame": true, "hyp": true, "concl": true, "params": true, "call": true, "immutable": true, "package_invariant": true}

// logical lines: a //@ line whose first word is not a keyword continues the previous one.
type logLine struct {
	text string
	line int
}

func readLogicalLines(path string) ([]logLine, error) {
	b, err := os.ReadFile(path)
	if err != nil {
		return nil, err
	}
	var out []logLine
	for i, ln := range strings.Split(string(b), "\n") {
		t := strings.TrimSpace(ln)
		if !strings.HasPrefix(t, "//@") {
			continue
		}
		t = strings.TrimSpace(t[3:])
		if t == "" {
			continue
		}
		// strip trailing comment "  // ..."
		if k := strings.Index(t, " // "); k >= 0 {
			t = strings.TrimSpace(t[:k])
		}
		first := t
		if k := strings.IndexAny(t, " \t["); k >= 0 {
			first = t[:k]
		}
		if clauseKw[first] || len(out) == 0 {
			out = append(out, logLine{t, i + 1})
		} else {
			out[len(out)-1].text += " " + t
		}
	}
	return out, nil
}

func splitKw(s string) (kw, label, rest string) {
	s = strings.TrimSpace(s)
	k := strings.IndexAny(s, " \t[")
	if k < 0 {
		return s, "", ""
	}
	kw = s[:k]
	rest = s[k:]
	if strings.HasPrefix(rest, "[") {
		e := strings.Index(rest, "]")
		label = rest[1:e]
		rest = rest[e+1:]
	}
	return kw, label, strings.TrimSpace(rest)
}

func parseParams(s string) ([]SpecParam, error) {
	var ps []SpecParam
	s = strings.TrimSpace(s)
	if s == "" {
		return nil, nil
	}
	for _, p := range strings.Split(s, ",") {
		f := strings.Fields(p)
		if len(f) != 2 {
			return nil, fmt.Errorf("bad param %q", p)
		}
		ps = append(ps, SpecParam{f[0], f[1]})
	}
	return ps, nil
}

func ParseContractFile(path, pkgPath string) (*ContractFile, error) {
	lines, err := readLogicalLines(path)
	if err != nil {
		return nil, err
	}
	cf := &ContractFile{PkgPath: pkgPath, Funcs: map[string]*FuncContract{}, Specs: map[string]*SpecFunc{}, Types: map[string]*TypeContract{}}
	var cur *FuncContract
	var curT *TypeContract
	var curL *Lemma
	fail := func(l logLine, f string, a ...interface{}) error {
		return fmt.Errorf("%s:%d: %s", path, l.line, fmt.Sprintf(f, a...))
	}
	mk := func(l logLine, kind, label, src string) (*Clause, error) {
		e, err := ParseExpr(src)
		if err != nil {
			return nil, fail(l, "%v", err)
		}
		return &Clause{Kind: kind, Label: label, Src: src, E: e, File: path, Line: l.line}, nil
	}
	for _, l := range lines {
		kw, label, rest := splitKw(l.text)
		switch kw {
		case "package":
			cf.PkgPath = rest
		case "func":
			cur = &FuncContract{Key: rest, PkgPath: cf.PkgPath, Loops: map[int]*LoopSpec{}, File: path, Line: l.line, Arith: "int", Opaque: map[string]string{}}
			curT, curL = nil, nil
			k := cf.PkgPath + "::" + rest
			if _, dup := cf.Funcs[k]; dup {
				return nil, fail(l, "duplicate contract for %s", rest)
			}
			cf.Funcs[k] = cur
			cf.Order = append(cf.Order, k)
		case "type":
			curT = &TypeContract{Name: rest, PkgPath: cf.PkgPath, File: path, Line: l.line}
			cur, curL = nil, nil
			cf.Types[cf.PkgPath+"::"+rest] = curT
		case "lemma":
			curL = &Lemma{Name: rest, PkgPath: cf.PkgPath, File: path, Line: l.line, Arith: "int"}
			cur, curT = nil, nil
			cf.Lemmas = append(cf.Lemmas, curL)
		case "params":
			if curL == nil {
				return nil, fail(l, "params outside lemma")
			}
			ps, err := parseParams(rest)
			if err != nil {
				return nil, fail(l, "%v", err)
			}
			curL.Params = ps
		case "hyp", "concl":
			if curL == nil {
				return nil, fail(l, "%s outside lemma", kw)
			}
			c, err := mk(l, kw, label, rest)
			if err != nil {
				return nil, err
			}
			if kw == "hyp" {
				curL.Hyps = append(curL.Hyps, c)
			} else {
				curL.Concl = append(curL.Concl, c)
			}
			curL.Steps = append(curL.Steps, c)
		case "call":
			if curL == nil {
				return nil, fail(l, "call outside lemma")
			}
			// call [x :=] f(args)
			bind := ""
			src := rest
			if as := strings.Index(rest, ":="); as >= 0 {
				bind = strings.TrimSpace(rest[:as])
				src = rest[as+2:]
			}
			c, err := mk(l, "call", bind, src)
			if err != nil {
				return nil, err
			}
			curL.Steps = append(curL.Steps, c)
		case "spec":
			// spec name(params) ret := body
			lp := strings.Index(rest, "(")
			rp := strings.Index(rest, ")")
			as := strings.Index(rest, ":=")
			if lp < 0 || rp < lp || as < rp {
				return nil, fail(l, "bad spec syntax")
			}
			ps, err := parseParams(rest[lp+1 : rp])
			if err != nil {
				return nil, fail(l, "%v", err)
			}
			body, err := ParseExpr(rest[as+2:])
			if err != nil {
				return nil, fail(l, "%v", err)
			}
			name := strings.TrimSpace(rest[:lp])
			sf := &SpecFunc{Name: name, PkgPath: cf.PkgPath, Params: ps, Ret: strings.TrimSpace(rest[rp+1 : as]), Body: body, File: path, Line: l.line}
			sf.Rec = exprCalls(body, name)
			cf.Specs[cf.PkgPath+"::"+name] = sf
		case "props":
			ps := strings.FieldsFunc(rest, func(r rune) bool { return r == ',' || r == ' ' })
			if cur != nil {
				cur.Props = ps
			} else if curL != nil {
				curL.Props = ps
			} else if curT != nil {
				curT.Props = ps
			} else {
				return nil, fail(l, "props outside func/lemma")
			}
		case "package_invariant":
			c, err := mk(l, kw, label, rest)
			if err != nil {
				return nil, err
			}
			c.Pkg = cf.PkgPath
			cf.PkgInvs = append(cf.PkgInvs, c)
		case "immutable":
			if curT == nil {
				return nil, fail(l, "immutable outside type")
			}
			curT.Immutable = append(curT.Immutable, strings.FieldsFunc(rest, func(r rune) bool { return r == ',' || r == ' ' })...)
		case "arith":
			if cur != nil {
				cur.Arith = rest
			} else if curL != nil {
				curL.Arith = rest
			}
		case "nopanic":
			if cur == nil {
				return nil, fail(l, "nopanic outside func")
			}
			cur.NoPanic = true
			if strings.TrimSpace(rest) != "" {
				cur.NoPanicKinds = map[string]bool{}
				for _, k := range strings.Split(rest, ",") {
					cur.NoPanicKinds[strings.TrimSpace(k)] = true
				}
			}
		case "trusted":
			if cur == nil {
				return nil, fail(l, "trusted outside func")
			}
			cur.Trusted = true
			cur.Why = rest
		case "note":
			if cur != nil {
				cur.Notes = append(cur.Notes, rest)
			}
		case "frame":
			// frame <callee-pattern> pure   : assume this (contract-less) callee writes nothing
			if cur == nil {
				return nil, fail(l, "frame outside func")
			}
			f := strings.Fields(rest)
			if len(f) < 2 {
				return nil, fail(l, "frame <callee> <pure|args>")
			}
			cur.Opaque[f[0]] = f[1]
			if f[1] == "keeps" {
				// frame <callee> keeps <loc>, <loc>, ... : the callee may write anything except these locations
				cur.Opaque[f[0]] = "keeps:" + strings.TrimSpace(rest[strings.Index(rest, "keeps")+5:])
			}
		case "let":
			if cur == nil {
				return nil, fail(l, "let outside func")
			}
			as := strings.Index(rest, ":=")
			if as < 0 {
				return nil, fail(l, "let x := e")
			}
			e, err := ParseExpr(rest[as+2:])
			if err != nil {
				return nil, fail(l, "%v", err)
			}
			m := map[string]Expr{}
			for _, d := range cur.Lets {
				m[d.Name] = d.E
			}
			cur.Lets = append(cur.Lets, letDef{strings.TrimSpace(rest[:as]), substExpr(e, m)})
		case "assert", "assume":
			if cur == nil {
				return nil, fail(l, "assert outside func")
			}
			anchor, occ, src, perr := parseAssertAt(rest)
			if perr != nil {
				return nil, fail(l, "%v", perr)
			}
			c, err := mk(l, kw, label, src)
			if err != nil {
				return nil, err
			}
			c.E = substExpr(c.E, letMap(cur))
			cur.Asserts = append(cur.Asserts, &AssertAt{Anchor: anchor, Occ: occ, C: c, Assume: kw == "assume"})
		case "requires", "ensures", "assumes":
			if cur == nil {
				return nil, fail(l, "%s outside func", kw)
			}
			c, err := mk(l, kw, label, rest)
			if err != nil {
				return nil, err
			}
			c.E = substExpr(c.E, letMap(cur))
			if kw == "requires" {
				cur.Requires = append(cur.Requires, c)
			} else {
				cur.Ensures = append(cur.Ensures, c)
			}
		case "invariant":
			if curT == nil {
				return nil, fail(l, "invariant outside type")
			}
			c, err := mk(l, kw, label, rest)
			if err != nil {
				return nil, err
			}
			curT.Invs = append(curT.Invs, c)
		case "modifies":
			if cur == nil {
				return nil, fail(l, "modifies outside func")
			}
			cur.HasMod = true
			for _, it := range splitTop(rest) {
				it = strings.TrimSpace(it)
				if it == "" || it == "nothing" {
					continue
				}
				if it == "*" {
					cur.Modifies = append(cur.Modifies, ModItem{Src: it, All: true})
					continue
				}
				if strings.HasPrefix(it, "any ") {
					// any T.f : field f of every object of struct type T
					tf := strings.TrimSpace(it[4:])
					if strings.HasPrefix(tf, "[]") {
						cur.Modifies = append(cur.Modifies, ModItem{Src: it, AnyType: tf})
						continue
					}
					dot := strings.LastIndex(tf, ".")
					if dot <= 0 {
						return nil, fail(l, "modifies any T.field")
					}
					cur.Modifies = append(cur.Modifies, ModItem{Src: it, AnyType: tf[:dot], AnyField: tf[dot+1:]})
					continue
				}
				src := strings.ReplaceAll(it, "[..]", "[:]")
				e, err := ParseExpr(src)
				if err != nil {
					return nil, fail(l, "%v", err)
				}
				cur.Modifies = append(cur.Modifies, ModItem{Src: it, E: substExpr(e, letMap(cur))})
			}
		case "loop":
			if cur == nil {
				return nil, fail(l, "loop outside func")
			}
			f := strings.Fields(rest)
			if len(f) < 3 {
				return nil, fail(l, "loop N invariant e")
			}
			n, err := strconv.Atoi(f[0])
			if err != nil {
				return nil, fail(l, "loop ordinal: %v", err)
			}
			kw2, label2, rest2 := splitKw(strings.TrimSpace(rest[len(f[0]):]))
			if kw2 != "invariant" {
				return nil, fail(l, "loop N invariant e")
			}
			c, err := mk(l, "invariant", label2, rest2)
			if err != nil {
				return nil, err
			}
			c.E = substExpr(c.E, letMap(cur))
			if cur.Loops[n] == nil {
				cur.Loops[n] = &LoopSpec{}
			}
			cur.Loops[n].Invs = append(cur.Loops[n].Invs, c)
		default:
			return nil, fail(l, "unknown clause keyword %q", kw)
		}
	}
	return cf, nil
}

func letMap(c *FuncContract) map[string]Expr {
	m := map[string]Expr{}
	for _, d := range c.Lets {
		m[d.Name] = d.E
	}
	return m
}

// split on commas at paren depth 0
func splitTop(s string) []string {
	var out []string
	d, st := 0, 0
	for i, c := range s {
		switch c {
		case '(', '[':
			d++
		case ')', ']':
			d--
		case ',':
			if d == 0 {
				out = append(out, s[st:i])
				st = i + 1
			}
		}
	}
	return append(out, s[st:])
}

func exprCalls(e Expr, name string) bool {
	found := false
	walkExpr(e, func(x Expr) {
		if c, ok := x.(*ECall); ok && c.Fun == name {
			found = true
		}
	})
	return found
}

func walkExpr(e Expr, f func(Expr)) {
	if e == nil {
		return
	}
	f(e)
	switch x := e.(type) {
	case *EUnary:
		walkExpr(x.X, f)
	case *EStar:
		walkExpr(x.X, f)
	case *EBinary:
		walkExpr(x.X, f)
		walkExpr(x.Y, f)
	case *ECond:
		walkExpr(x.C, f)
		walkExpr(x.A, f)
		walkExpr(x.B, f)
	case *ECall:
		for _, a := range x.Args {
			walkExpr(a, f)
		}
	case *EIndex:
		walkExpr(x.X, f)
		walkExpr(x.I, f)
	case *ESlice:
		walkExpr(x.X, f)
		if x.Lo != nil {
			walkExpr(x.Lo, f)
		}
		if x.Hi != nil {
			walkExpr(x.Hi, f)
		}
	case *ESel:
		walkExpr(x.X, f)
	case *EQuant:
		walkExpr(x.Body, f)
	}
}

func sortedKeys[V any](m map[string]V) []string {
	var ks []string
	for k := range m {
		ks = append(ks, k)
	}
	sort.Strings(ks)
	return ks
}

package main

import (
	"go/types"

	"golang.org/x/tools/go/ssa"
)

// Private cells: an Alloc of this function (a local variable that go/ssa had to put in memory: a named
// result, a variable captured by a closure) whose address never leaves the function except as the binding
// of closures that are themselves harmless. No other code can name such a cell, so a call that "may write
// anything" cannot change it: havocAll keeps the contents of private cells.
//
// The address may be used only by loads, stores *to* it, debug references, field addresses (same rule) and
// MakeClosure bindings of closures whose body never stores through that free variable (they only read the
// variable; whoever ends up calling the closure therefore cannot change the cell either).
func (e *FnEnc) isPrivateCell(a *ssa.Alloc) bool {
	var okAddr func(v ssa.Value, depth int) bool
	var closureHarmless func(mc *ssa.MakeClosure, idx int) bool
	okAddr = func(v ssa.Value, depth int) bool {
		refs := v.Referrers()
		if refs == nil {
			return false
		}
		for _, in := range *refs {
			switch x := in.(type) {
			case *ssa.DebugRef:
			case *ssa.UnOp: // load
			case *ssa.Store:
				if x.Val == v {
					return false
				}
			case *ssa.FieldAddr:
				if depth > 3 || !okAddr(x, depth+1) {
					return false
				}
			case *ssa.MakeClosure:
				for i, b := range x.Bindings {
					if b == v && !closureHarmless(x, i) {
						return false
					}
				}
			default:
				return false
			}
		}
		return true
	}
	storesThrough := func(fv *ssa.FreeVar) bool {
		refs := fv.Referrers()
		if refs == nil {
			return true
		}
		for _, in := range *refs {
			switch x := in.(type) {
			case *ssa.DebugRef:
			case *ssa.UnOp:
			case *ssa.FieldAddr:
				// reading a field through the variable would need the loaded pointer, not the cell address:
				// a FieldAddr directly on the free variable means the cell holds a struct; be conservative
				return true
			case *ssa.Store:
				return true
			default:
				_ = x
				return true
			}
		}
		return false
	}
	closureHarmless = func(mc *ssa.MakeClosure, idx int) bool {
		fn, ok := mc.Fn.(*ssa.Function)
		if !ok || idx >= len(fn.FreeVars) {
			return false
		}
		if !storesThrough(fn.FreeVars[idx]) {
			return true
		}
		// the closure writes the variable; its calls are encoded as opaque calls, so the cell is not private
		return false
	}
	return okAddr(a, 0)
}

type privSnap struct {
	t   modTarget
	old string
}

// snapshot of the private cells' contents (taken before a whole-heap havoc)
func (e *FnEnc) privSnapshot() []privSnap {
	var out []privSnap
	for _, pc := range e.privCells {
		for _, mt := range e.objTargets(pc.ref, pc.elem) {
			if _, ok := e.heapSort[mt.name]; !ok || mt.ref == "" || mt.ref == "?" {
				continue
			}
			out = append(out, privSnap{mt, e.heapArr(mt.name, mt.sort)})
		}
	}
	return out
}

func (e *FnEnc) privRestore(snaps []privSnap) {
	for _, s := range snaps {
		nw := e.heapArr(s.t.name, s.t.sort)
		e.assume(seq("(select "+nw+" "+s.t.ref+")", "(select "+s.old+" "+s.t.ref+")"))
	}
}

type privCell struct {
	ref  string
	elem types.Type
}

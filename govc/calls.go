package main

import (
	"fmt"
	"go/token"
	"go/types"
	"strings"

	"golang.org/x/tools/go/ssa"
)

type modTarget struct {
	name  string              // heap array
	sort  string
	ref   string              // specific index (object ref / slice base) or "" when described by allow only
	allow func(r string) string // which indices may change
	whole bool                // globals: the whole (scalar) array
	lo, hi string             // element arrays: absolute index range [lo,hi) of the row that may change ("" = whole row)
}

// modifies targets of contract c evaluated in env (pre-state of the call / function entry)
func (e *FnEnc) modTargets(c *FuncContract, env *specEnv) (ts []modTarget, all bool) {
	for _, m := range c.Modifies {
		if m.All {
			return nil, true
		}
		if strings.HasPrefix(m.AnyType, "[]") {
			// any []T : the elements of every slice / array of T
			elT := env.resolveType(m.AnyType[2:])
			if isAggregateElem(elT) {
				sfail("modifies %s: element type must be scalar", m.Src)
			}
			for _, l := range e.sorter.leaves(elT) {
				ts = append(ts, modTarget{name: elemArrName(typeName(elT), l.suffix), sort: e.arrSort2(l.sort), allow: func(string) string { return "true" }})
			}
			continue
		}
		if m.AnyType != "" {
			t := env.resolveType(m.AnyType)
			st, ok := t.Underlying().(*types.Struct)
			if !ok {
				sfail("modifies %s: not a struct type", m.Src)
			}
			idx, path := findField(st, m.AnyField)
			if idx < 0 || len(path) != 1 || isAggregateElem(st.Field(idx).Type()) {
				sfail("modifies %s: no scalar field", m.Src)
			}
			for _, l := range e.sorter.leaves(st.Field(idx).Type()) {
				ts = append(ts, modTarget{name: objArrName(typeName(t), "."+m.AnyField+l.suffix), sort: e.arrSort1(l.sort), allow: func(string) string { return "true" }})
			}
			continue
		}
		ts = append(ts, e.modTargetsOf(m.E, env, m.Src)...)
	}
	return ts, false
}

func (e *FnEnc) objTargets(ref string, t types.Type) []modTarget {
	var ts []modTarget
	switch u := t.Underlying().(type) {
	case *types.Struct:
		for i := 0; i < u.NumFields(); i++ {
			f := u.Field(i)
			if isAggregateElem(f.Type()) {
				ts = append(ts, e.objTargets(e.emb(ref, i+1), f.Type())...)
				continue
			}
			for _, l := range e.sorter.leaves(f.Type()) {
				r := ref
				ts = append(ts, modTarget{name: objArrName(typeName(t), "."+f.Name()+l.suffix), sort: e.arrSort1(l.sort), ref: ref,
					allow: func(x string) string { return seq(x, r) }})
			}
		}
	case *types.Array:
		for _, l := range e.sorter.leaves(u.Elem()) {
			r := ref
			ts = append(ts, modTarget{name: elemArrName(typeName(u.Elem()), l.suffix), sort: e.arrSort2(l.sort), ref: ref,
				allow: func(x string) string { return seq(x, r) }})
		}
	default:
		for _, l := range e.sorter.leaves(t) {
			r := ref
			ts = append(ts, modTarget{name: objArrName("cell:"+typeName(t), l.suffix), sort: e.arrSort1(l.sort), ref: ref,
				allow: func(x string) string { return seq(x, r) }})
		}
	}
	return ts
}

func (e *FnEnc) elemTargets(base string, elT types.Type) []modTarget {
	var ts []modTarget
	if isAggregateElem(elT) {
		// elements live at eaddr(base, k)
		e.eaddr(base, e.idxConst(0))
		for _, t := range e.objTargets("?", elT) {
			b := base
			t.ref = ""
			t.allow = func(x string) string { return seq("(eaddr_base "+x+")", b) }
			ts = append(ts, t)
		}
		return ts
	}
	for _, l := range e.sorter.leaves(elT) {
		b := base
		ts = append(ts, modTarget{name: elemArrName(typeName(elT), l.suffix), sort: e.arrSort2(l.sort), ref: base,
			allow: func(x string) string { return seq(x, b) }})
	}
	return ts
}

func (e *FnEnc) modTargetsOf(x Expr, env *specEnv, src string) []modTarget {
	switch n := x.(type) {
	case *EStar:
		p := env.eval(n.X)
		pt, ok := typeUnder(p.T).(*types.Pointer)
		if !ok {
			sfail("modifies *%s: not a pointer", n.X)
		}
		if l := p.Loc; l != nil {
			// a pointer to a field / element / global (e.g. `&c.count` passed to sync/atomic): the location itself
			var ts []modTarget
			for _, lf := range e.sorter.leaves(l.T) {
				switch l.Kind {
				case "field":
					r := l.Ref
					ts = append(ts, modTarget{name: objArrName(l.ObjT, "."+l.Fld+lf.suffix), sort: e.arrSort1(lf.sort), ref: r,
						allow: func(x string) string { return seq(x, r) }})
				case "elem":
					b, i := l.Ref, l.Idx
					ts = append(ts, modTarget{name: elemArrName(l.ObjT, lf.suffix), sort: e.arrSort2(lf.sort), ref: b,
						allow: func(x string) string { return seq(x, b) }, lo: i, hi: e.idxAdd(i, e.idxConst(1))})
				case "global":
					ts = append(ts, modTarget{name: "G/" + l.ObjT + "/" + lf.suffix, sort: lf.sort, whole: true})
				}
			}
			return ts
		}
		return e.objTargets(p.L[0], pt.Elem())
	case *ESlice:
		s := env.eval(n.X)
		switch t := typeUnder(s.T).(type) {
		case *types.Slice:
			ts := e.elemTargets(s.L[0], t.Elem())
			if !isAggregateElem(t.Elem()) { // s[..] is exactly the window of s, not the whole backing array
				lo, hi := s.L[1], e.idxAdd(s.L[1], s.L[2])
				if n.Lo != nil {
					lo = e.idxAdd(s.L[1], env.asIdx(env.eval(n.Lo)))
				}
				if n.Hi != nil {
					hi = e.idxAdd(s.L[1], env.asIdx(env.eval(n.Hi)))
				}
				for i := range ts {
					ts[i].lo, ts[i].hi = lo, hi
				}
			}
			return ts
		case *types.Map:
			var ts []modTarget
			dn, ds := e.mapDom(t)
			r := s.L[0]
			ts = append(ts, modTarget{name: dn, sort: ds, ref: r, allow: func(x string) string { return seq(x, r) }})
			for _, l := range e.sorter.leaves(t.Elem()) {
				vn, vs := e.mapValArr(t, l)
				ts = append(ts, modTarget{name: vn, sort: vs, ref: r, allow: func(x string) string { return seq(x, r) }})
			}
			return ts
		case *types.Pointer:
			if at, ok := t.Elem().Underlying().(*types.Array); ok {
				return e.elemTargets(s.L[0], at.Elem())
			}
		}
		sfail("modifies %s: not a slice/map", src)
	case *ESel:
		ref, structT := e.structLoc(n.X, env, src)
		st, ok := structT.Underlying().(*types.Struct)
		if !ok {
			sfail("modifies %s: not a struct", src)
		}
		idx, path := findField(st, n.F)
		if idx < 0 || len(path) != 1 {
			sfail("modifies %s: no direct field", src)
		}
		f := st.Field(idx)
		if isAggregateElem(f.Type()) {
			return e.objTargets(e.emb(ref, idx+1), f.Type())
		}
		var ts []modTarget
		for _, l := range e.sorter.leaves(f.Type()) {
			r := ref
			ts = append(ts, modTarget{name: objArrName(typeName(structT), "."+f.Name()+l.suffix), sort: e.arrSort1(l.sort), ref: ref,
				allow: func(x string) string { return seq(x, r) }})
		}
		return ts
	case *ECall:
		if n.Fun == "closed" && len(n.Args) == 1 {
			r := env.eval(n.Args[0]).L[0]
			return []modTarget{{name: "C/closed", sort: "(Array Int Bool)", ref: r, allow: func(x string) string { return seq(x, r) }}}
		}
	case *EIdent:
		// a captured variable of a closure: the cell the free variable points to
		if fv, ok := e.fvPtrs[n.Name]; ok {
			if pt, ok := typeUnder(fv.T).(*types.Pointer); ok {
				return e.objTargets(fv.L[0], pt.Elem())
			}
		}
		// global variable
		if pkg := env.pkgOf(); pkg != nil {
			if v, ok := pkg.Scope().Lookup(n.Name).(*types.Var); ok {
				name := v.Pkg().Name() + "." + v.Name()
				if isAggregateElem(v.Type()) {
					return e.objTargets(e.decl("glob:"+name, "Int"), v.Type())
				}
				var ts []modTarget
				for _, l := range e.sorter.leaves(v.Type()) {
					ts = append(ts, modTarget{name: "G/" + name + "/" + l.suffix, sort: l.sort, whole: true})
				}
				return ts
			}
		}
	}
	sfail("unsupported modifies item %s", src)
	return nil
}

// for frame obligations: per array, the disjunction of allowed indices
func (e *FnEnc) modifiesSets(c *FuncContract, entry, exit *specEnv) map[string]func(string, string) string {
	var ts []modTarget
	var all bool
	func() {
		defer func() {
			if r := recover(); r != nil {
				if se, ok := r.(specErr); ok {
					panic(unsupported{"modifies clause of " + c.Key + ": " + se.msg})
				}
				panic(r)
			}
		}()
		ts, all = e.modTargets(c, entry)
	}()
	if all {
		return nil
	}
	out := map[string]func(string, string) string{}
	for _, t := range ts {
		t := t
		prev := out[t.name]
		if t.whole {
			out[t.name] = func(string, string) string { return "true" }
			continue
		}
		out[t.name] = func(r, k string) string {
			a := t.allow(r)
			if t.lo != "" && k != "" {
				a = sand(a, e.idxLe(t.lo, k), e.idxLt(k, t.hi))
			}
			if prev != nil {
				return sor(prev(r, k), a)
			}
			return a
		}
	}
	return out
}

func (e *FnEnc) havocTargets(ts []modTarget) {
	for _, t := range ts {
		cur := e.heapArr(t.name, t.sort)
		switch {
		case t.whole:
			e.havocHeap(t.name)
		case t.ref != "" && t.ref != "?":
			inner := t.sort[len("(Array Int ") : len(t.sort)-1]
			fv := e.decl(e.fresh("hv"), inner)
			if t.lo != "" {
				e.assume(fmt.Sprintf("(forall ((k %s)) (! (=> (not (and %s %s)) (= (select %s k) (select (select %s %s) k))) :pattern ((select %s k))))",
					e.sorter.idxSort(), e.idxLe(t.lo, "k"), e.idxLt("k", t.hi), fv, cur, t.ref, fv))
			}
			e.setHeap(t.name, t.sort, "(store "+cur+" "+t.ref+" "+fv+")")
		default:
			e.havocHeap(t.name)
			nw := e.heapArr(t.name, t.sort)
			e.assume(fmt.Sprintf("(forall ((r Int)) (! (=> (not %s) (= (select %s r) (select %s r))) :pattern ((select %s r))))", t.allow("r"), nw, cur, nw))
		}
	}
}

// ---- calls ----

func sigParamNames(sig *types.Signature) []string {
	var ns []string
	if r := sig.Recv(); r != nil {
		n := r.Name()
		if n == "" || n == "_" {
			n = "recv"
		}
		ns = append(ns, n)
	}
	for i := 0; i < sig.Params().Len(); i++ {
		n := sig.Params().At(i).Name()
		if n == "" || n == "_" {
			n = fmt.Sprintf("a%d", i)
		}
		ns = append(ns, n)
	}
	return ns
}

func fnKeyOf(fn *ssa.Function) (pkgPath, key string) {
	if pp, k, ok := anonKey(fn); ok {
		return pp, k
	}
	sig := fn.Signature
	if fn.Pkg != nil {
		pkgPath = fn.Pkg.Pkg.Path()
	}
	if r := sig.Recv(); r != nil {
		t := r.Type()
		ptr := ""
		if p, ok := t.(*types.Pointer); ok {
			t = p.Elem()
			ptr = "*"
		}
		if n, ok := t.(*types.Named); ok {
			if n.Obj().Pkg() != nil {
				pkgPath = n.Obj().Pkg().Path()
			}
			return pkgPath, "(" + ptr + n.Obj().Name() + ")." + fn.Name()
		}
	}
	return pkgPath, fn.Name()
}

func (e *FnEnc) encCall(cc *ssa.CallCommon, instr *ssa.Call, pos token.Pos) *Val {
	var resT types.Type = cc.Signature().Results()
	if cc.Signature().Results().Len() == 1 {
		resT = cc.Signature().Results().At(0).Type()
	}
	if b, ok := cc.Value.(*ssa.Builtin); ok {
		return e.encBuiltin(b, cc, instr, pos)
	}
	var args []Val
	var argTs []types.Type
	var c *FuncContract
	var calleeName string
	var calleePkg *types.Package
	var names []string
	isRepo := false
	for _, a := range cc.Args {
		if mc, ok := a.(*ssa.MakeClosure); ok {
			e.closureAxiom(mc)
		}
	}
	if cc.IsInvoke() {
		recv := e.val(cc.Value)
		args = append(args, recv)
		argTs = append(argTs, cc.Value.Type())
		for _, a := range cc.Args {
			args = append(args, e.val(a))
			argTs = append(argTs, a.Type())
		}
		e.nonNil(Val{L: []string{recv.L[0]}}, pos, "method call on nil interface")
		tn := ""
		if n, ok := cc.Value.Type().(*types.Named); ok {
			tn = n.Obj().Name()
			calleePkg = n.Obj().Pkg()
		}
		calleeName = "(" + tn + ")." + cc.Method.Name()
		pp := ""
		if calleePkg != nil {
			pp = calleePkg.Path()
		} else if cc.Method.Pkg() != nil {
			calleePkg = cc.Method.Pkg()
			pp = calleePkg.Path()
		}
		if tn == "" && cc.Method.Name() == "Error" {
			pp, calleeName = "builtin", "(error).Error"
		}
		c = e.prog.contract(pp, calleeName)
		isRepo = e.prog.isRepoPkg(pp)
		names = []string{"recv"}
		for i := 0; i < cc.Signature().Params().Len(); i++ {
			n := cc.Signature().Params().At(i).Name()
			if n == "" || n == "_" {
				n = fmt.Sprintf("a%d", i)
			}
			names = append(names, n)
		}
		calleeName = pkgBase(pp) + "." + calleeName
	} else if fn := cc.StaticCallee(); fn != nil {
		for _, a := range cc.Args {
			args = append(args, e.val(a))
			argTs = append(argTs, a.Type())
		}
		if mc, isClosure := cc.Value.(*ssa.MakeClosure); isClosure || fn.Parent() != nil {
			// a closure created in this function and called (or deferred) directly: if it is under contract,
			// the contract is applied with the captured variables bound to this function's cells
			if isClosure {
				pp, key := fnKeyOf(fn)
				if cl := e.prog.contract(pp, key); cl != nil && !cl.Trusted && len(mc.Bindings) == len(fn.FreeVars) {
					cl.used = true
					fvs := map[string]Val{}
					for i, fv := range fn.FreeVars {
						fvs[fv.Name()] = e.val(mc.Bindings[i])
					}
					e.callFvs = fvs
					defer func() { e.callFvs = nil }()
					var cpkg *types.Package
					if fn.Pkg != nil {
						cpkg = fn.Pkg.Pkg
					}
					return e.applyContract(cl, pkgBase(pp)+"."+key, cpkg, sigParamNames(fn.Signature), args, argTs, cc.Signature(), nil, resT, pos)
				}
			}
			return e.opaqueCall(cc, args, resT, fn.String(), true, pos)
		}
		pp, key := fnKeyOf(fn)
		c = e.prog.contract(pp, key)
		isRepo = e.prog.isRepoPkg(pp)
		calleeName = pkgBase(pp) + "." + key
		names = sigParamNames(fn.Signature)
		if fn.Pkg != nil {
			calleePkg = fn.Pkg.Pkg
		} else {
			calleePkg = e.prog.typesPkg(pp)
		}
		if fn.Signature.Recv() != nil {
			e.recvNilCheck(fn, args, pos)
		}
	} else {
		for _, a := range cc.Args {
			args = append(args, e.val(a))
		}
		fname := cc.Value.Name()
		if ld, ok := cc.Value.(*ssa.UnOp); ok {
			if fa, ok := ld.X.(*ssa.FieldAddr); ok {
				if st, ok := fa.X.Type().Underlying().(*types.Pointer).Elem().Underlying().(*types.Struct); ok {
					fname = st.Field(fa.Field).Name() // a function stored in a struct field: named after the field
				}
			}
		}
		return e.opaqueCall(cc, args, resT, "func value "+fname, true, pos)
	}
	if c == nil {
		return e.opaqueCall(cc, args, resT, calleeName, isRepo, pos)
	}
	c.used = true
	var recvT types.Type
	if cc.IsInvoke() {
		recvT = cc.Value.Type()
	}
	return e.applyContract(c, calleeName, calleePkg, names, args, argTs, cc.Signature(), recvT, resT, pos)
}

func pkgBase(p string) string {
	if i := strings.LastIndex(p, "/"); i >= 0 {
		return p[i+1:]
	}
	return p
}

// calling a pointer-receiver method with nil receiver is legal in Go; nothing to check here
func (e *FnEnc) recvNilCheck(fn *ssa.Function, args []Val, pos token.Pos) {}

func (e *FnEnc) applyContract(c *FuncContract, calleeName string, calleePkg *types.Package, names []string, args []Val, argTs []types.Type, sig *types.Signature, invokeRecvT types.Type, resT types.Type, pos token.Pos) *Val {
	pre := e.st.clone()
	env := &specEnv{e: e, vars: map[string]Val{}, st: pre, old: pre, pkg: calleePkg, fvs: e.callFvs}
	var ptypes []types.Type
	if invokeRecvT != nil {
		ptypes = append(ptypes, invokeRecvT)
	} else if sig.Recv() != nil {
		ptypes = append(ptypes, sig.Recv().Type())
	}
	for i := 0; i < sig.Params().Len(); i++ {
		ptypes = append(ptypes, sig.Params().At(i).Type())
	}
	for i, n := range names {
		if i < len(args) {
			a := args[i]
			if i < len(ptypes) {
				a = e.coerceArg(a, argTsAt(argTs, i), ptypes[i])
				a.T = ptypes[i]
			}
			env.vars[n] = a
		}
	}
	wrap := func(cl *Clause, f func() string) (res string) {
		defer func() {
			if r := recover(); r != nil {
				if se, ok := r.(specErr); ok {
					panic(unsupported{fmt.Sprintf("%s:%d: contract of %s, `%s`: %s", cl.File, cl.Line, calleeName, cl.Src, se.msg)})
				}
				panic(r)
			}
		}()
		return f()
	}
	if e.pass == 2 {
		for _, r := range c.Requires {
			t := wrap(r, func() string { return env.eval(r.E).L[0] })
			e.flushFacts()
			lbl := r.Label
			if lbl == "" {
				lbl = shortLabel(r.Src)
			}
			e.oblige("call.requires", calleeName+": "+lbl, t, pos)
			e.assume(t)
		}
	}
	// frame
	var ts []modTarget
	all := false
	func() {
		defer func() {
			if r := recover(); r != nil {
				if se, ok := r.(specErr); ok {
					panic(unsupported{"modifies clause of " + calleeName + ": " + se.msg})
				}
				panic(r)
			}
		}()
		save := e.st
		e.st = pre
		ts, all = e.modTargets(c, env)
		e.st = save
	}()
	if !c.HasMod {
		// a contract without a modifies clause promises nothing about the heap (and its frame is not checked
		// on the callee side): the caller must assume everything may change
		all = true
		e.note("contract of " + calleeName + " has no modifies clause: the call havocs the heap")
	}
	if all {
		keeps := ""
		for pat, tr := range e.c.Opaque {
			if strings.HasPrefix(tr, "keeps:") && (pat == calleeName || strings.HasSuffix(calleeName, "."+pat) || strings.HasSuffix(calleeName, pat)) {
				keeps = tr[6:]
			}
		}
		if keeps == "" && strings.HasPrefix(e.c.Opaque["*"], "keeps:") {
			keeps = e.c.Opaque["*"][6:]
		}
		if keeps != "" {
			e.note("assumed frame: " + calleeName + " may write anything except " + keeps + " (in " + e.key + ")")
			e.havocAllKeeping(keeps)
		} else {
			e.havocAll()
		}
	} else {
		e.havocTargets(ts)
	}
	// results
	var res *Val
	nres := sig.Results().Len()
	var results []Val
	if nres > 0 {
		rv := e.freshVal("call_"+sanitize(calleeName), resT)
		e.assume(e.typeFacts(rv))
		res = &rv
		if nres == 1 {
			results = []Val{rv}
		} else {
			tp := sig.Results()
			for i := 0; i < nres; i++ {
				lo, hi := e.sorter.tupleRange(tp, i)
				results = append(results, Val{T: tp.At(i).Type(), L: rv.L[lo:hi]})
			}
		}
		if returnsRefs(sig.Results()) {
			e.growAlloc()
			for _, r := range results {
				e.assume(e.allocatedFacts(r, e.heapArr("$alloc", "(Array Int Bool)")))
			}
		}
	}
	post := &specEnv{e: e, vars: env.vars, st: e.st, old: pre, results: results, pkg: calleePkg, fvs: env.fvs}
	for i := 0; i < nres; i++ {
		if n := sig.Results().At(i).Name(); n != "" && n != "_" {
			if _, clash := post.vars[n]; !clash {
				post.vars[n] = results[i]
			}
		}
	}
	for _, en := range c.Ensures {
		if strings.HasSuffix(en.Label, "!bv") && e.sorter.mode != ModeBV {
			continue // bit-level clause: not used by callers encoded with mathematical integers (fewer assumptions)
		}
		t := wrap(en, func() string { return post.eval(en.E).L[0] })
		e.flushFacts()
		e.assume(t)
	}
	if c.Trusted {
		e.note("trusted contract: " + calleeName + " (" + c.Why + ")")
	}
	return res
}

func argTsAt(ts []types.Type, i int) types.Type {
	if i < len(ts) {
		return ts[i]
	}
	return nil
}

func (e *FnEnc) coerceArg(a Val, from, to types.Type) Val {
	if from == nil || to == nil {
		return a
	}
	if _, toI := to.Underlying().(*types.Interface); toI {
		if _, fromI := from.Underlying().(*types.Interface); !fromI {
			return e.makeIface(a, from)
		}
	}
	return e.coerce(a, to)
}

func sanitize(s string) string {
	r := strings.NewReplacer("(", "", ")", "", "*", "", " ", "_", "/", "_")
	return r.Replace(s)
}

func returnsRefs(tp *types.Tuple) bool {
	for i := 0; i < tp.Len(); i++ {
		switch tp.At(i).Type().Underlying().(type) {
		case *types.Pointer, *types.Slice, *types.Map, *types.Interface:
			return true
		}
	}
	return false
}

// allocation set may have grown (callee allocated)
func (e *FnEnc) growAlloc() {
	old := e.heapArr("$alloc", "(Array Int Bool)")
	e.havocHeap("$alloc")
	nw := e.heapArr("$alloc", "(Array Int Bool)")
	e.assume(fmt.Sprintf("(forall ((r Int)) (! (=> (select %s r) (select %s r)) :pattern ((select %s r))))", old, nw, old))
	e.assume("(not (select " + nw + " 0))")
}

var noEffectCallees = map[string]bool{
	"sync.(*Mutex).Lock": true, "sync.(*Mutex).Unlock": true, "sync.(*RWMutex).Lock": true, "sync.(*RWMutex).Unlock": true,
	"sync.(*RWMutex).RLock": true, "sync.(*RWMutex).RUnlock": true, "sync.(*WaitGroup).Add": true, "sync.(*WaitGroup).Done": true,
	"sync.(*Cond).Broadcast": true, "sync.(*Cond).Signal": true,
}

func (e *FnEnc) opaqueCall(cc *ssa.CallCommon, args []Val, resT types.Type, name string, repo bool, pos token.Pos) *Val {
	treat := ""
	for pat, tr := range e.c.Opaque {
		if pat == name || strings.HasSuffix(name, "."+pat) || strings.HasSuffix(name, pat) {
			treat = tr
		}
	}
	benign := false
	if !repo {
		for _, p := range []string{"log4go.", "log.", "metrics.", "delay_counter.", "module_state2."} {
			if strings.HasPrefix(name, p) {
				benign = true
			}
		}
	}
	if treat == "" && repo {
		// `frame * ...`: default treatment of every contract-less repository callee of this function
		treat = e.c.Opaque["*"]
	}
	switch {
	case benign:
		e.note("logging / metrics libraries (log4go, go-lib log, web-monitor metrics) are assumed to write no state of packages under contract; their results are unconstrained")
	case noEffectCallees[name]:
		e.note("lock operations are no-ops (sequential semantics)")
	case strings.HasPrefix(treat, "keeps:"):
		e.note("assumed frame: " + name + " may write anything except " + treat[6:] + " (in " + e.key + ")")
		e.havocAllKeeping(treat[6:])
	case treat == "pure":
		e.note("assumed frame: " + name + " writes nothing (in " + e.key + ")")
	case treat == "args" || (!repo && treat == ""):
		if !repo {
			e.note("external callee without contract: " + name + " — assumed to write at most the objects passed to it; results unconstrained")
		} else {
			e.note("assumed frame: " + name + " writes at most its arguments (in " + e.key + ")")
		}
		for _, a := range args {
			e.havocArg(a)
		}
		// a pointer boxed into an interface at the call site (binary.Read(r, order, &x), fmt.Sscan(&x), ...):
		// the callee may write through it
		for _, ca := range cc.Args {
			if mi, ok := ca.(*ssa.MakeInterface); ok {
				if _, isPtr := mi.X.Type().Underlying().(*types.Pointer); isPtr {
					pv := e.val(mi.X)
					pv.T = mi.X.Type()
					e.havocArg(pv)
				}
				// a struct VALUE boxed into an interface (sort.Sort(sorter{list})): the callee works on a copy of
				// the struct but reaches the slices, maps and objects its fields refer to
				if st, isStruct := mi.X.Type().Underlying().(*types.Struct); isStruct {
					sv := e.val(mi.X)
					for i := 0; i < st.NumFields(); i++ {
						lo, hi := e.sorter.fieldRange(st, i)
						if lo < 0 || hi > len(sv.L) || lo >= hi {
							continue
						}
						e.havocArg(Val{T: st.Field(i).Type(), L: sv.L[lo:hi]})
					}
				}
			}
		}
	default:
		e.note("opaque call havocs the whole heap: " + name + " (in " + e.key + ")")
		e.havocAll()
	}
	if cc.Signature().Results().Len() == 0 {
		return nil
	}
	rv := e.freshVal("opq_"+sanitize(name), resT)
	e.assume(e.typeFacts(rv))
	if returnsRefs(cc.Signature().Results()) {
		e.growAlloc()
	}
	return &rv
}

func (e *FnEnc) havocArg(a Val) {
	if a.Loc != nil {
		fv := e.freshVal("hv", a.Loc.T)
		e.storeLoc(a.Loc, fv)
		return
	}
	if a.T == nil {
		return
	}
	switch t := a.T.Underlying().(type) {
	case *types.Slice:
		e.havocTargets(e.elemTargets(a.L[0], t.Elem()))
	case *types.Pointer:
		if _, ok := t.Elem().Underlying().(*types.Struct); ok && t.Elem().Underlying().(*types.Struct).NumFields() > 40 {
			e.note("large struct passed to external callee: all its fields havocked")
		}
		e.havocTargets(e.objTargets(a.L[0], t.Elem()))
	case *types.Struct:
		// a struct passed by value: what its fields refer to
		for i := 0; i < t.NumFields(); i++ {
			lo, hi := e.sorter.fieldRange(t, i)
			if lo < 0 || hi > len(a.L) || lo >= hi {
				continue
			}
			if _, nested := t.Field(i).Type().Underlying().(*types.Struct); nested {
				continue // one level is enough for the callers at hand (sorter values); deeper values are noted, not followed
			}
			e.havocArg(Val{T: t.Field(i).Type(), L: a.L[lo:hi]})
		}
	case *types.Map:
		dn, ds := e.mapDom(t)
		r := a.L[0]
		ts := []modTarget{{name: dn, sort: ds, ref: r}}
		for _, l := range e.sorter.leaves(t.Elem()) {
			vn, vs := e.mapValArr(t, l)
			ts = append(ts, modTarget{name: vn, sort: vs, ref: r})
		}
		e.havocTargets(ts)
	}
}

// ---- builtins ----

func (e *FnEnc) encBuiltin(b *ssa.Builtin, cc *ssa.CallCommon, instr *ssa.Call, pos token.Pos) *Val {
	arg := func(i int) Val { return e.val(cc.Args[i]) }
	switch b.Name() {
	case "len", "cap":
		a := arg(0)
		switch t := cc.Args[0].Type().Underlying().(type) {
		case *types.Slice:
			if b.Name() == "len" {
				return &Val{T: tInt, L: []string{a.L[2]}}
			}
			return &Val{T: tInt, L: []string{a.L[3]}}
		case *types.Basic:
			return &Val{T: tInt, L: []string{e.strLen(a.L[0])}}
		case *types.Map:
			f := e.uf("map_len", []string{"Int", e.mapKeySet(t)}, e.sorter.idxSort())
			dn, ds := e.mapDom(t)
			r := "(" + f + " " + a.L[0] + " (select " + e.heapArr(dn, ds) + " " + a.L[0] + "))"
			e.assume(e.idxLe(e.idxConst(0), r))
			// an empty map has no keys; a nil map is empty
			domRow := "(select " + e.heapArr(dn, ds) + " " + a.L[0] + ")"
			e.assume(simp(seq(r, e.idxConst(0)), "(forall ((k "+e.mapKeySort(t)+")) (! (not (select "+domRow+" k)) :pattern ((select "+domRow+" k))))"))
			e.assume(simp(seq(a.L[0], "0"), seq(r, e.idxConst(0))))
			return &Val{T: tInt, L: []string{r}}
		case *types.Chan:
			v := e.freshVal("chanlen", tInt)
			e.assume(e.idxLe(e.idxConst(0), v.L[0]))
			return &v
		case *types.Pointer:
			if at, ok := t.Elem().Underlying().(*types.Array); ok {
				return &Val{T: tInt, L: []string{e.idxConst(at.Len())}}
			}
		case *types.Array:
			return &Val{T: tInt, L: []string{e.idxConst(t.Len())}}
		}
		unsup("len of %s", cc.Args[0].Type())
	case "append":
		return e.encAppend(cc, pos)
	case "copy":
		return e.encCopy(cc, pos)
	case "delete":
		mt := cc.Args[0].Type().Underlying().(*types.Map)
		m := arg(0)
		k := e.mapKey(mt, e.coerceKey(arg(1), cc.Args[1].Type(), mt.Key()))
		e.mapDelete(m.L[0], mt, k)
		return nil
	case "print", "println":
		return nil
	case "close":
		// closing a nil or an already closed channel panics: the "closed" bit of a channel is a heap location
		// (C/closed, see closed(c) in contracts); the obligation is generated where the contract lists the kind
		// `close` (`nopanic close,...`), elsewhere the call only sets the bit
		c := arg(0)
		arr := e.heapArr("C/closed", "(Array Int Bool)")
		cond := sand(snot(seq(c.L[0], "0")), snot("(select "+arr+" "+c.L[0]+")"))
		if e.c.NoPanic && e.c.NoPanicKinds["close"] {
			if e.pass == 2 {
				e.oblige("close", e.posLabel(pos, "close of channel"), cond, pos)
			}
			e.assume(cond)
		}
		e.setHeap("C/closed", "(Array Int Bool)", "(store "+arr+" "+c.L[0]+" true)")
		return nil
	case "recover":
		v := e.zeroVal(types.NewInterfaceType(nil, nil))
		e.note("recover() returns nil (panics are not modelled)")
		return &v
	case "min", "max":
		t := cc.Args[0].Type()
		r := arg(0).L[0]
		for i := 1; i < len(cc.Args); i++ {
			lt, _ := e.binop(token.LSS, r, arg(i).L[0], t, t, false)
			if b.Name() == "min" {
				r = site(lt, r, arg(i).L[0])
			} else {
				r = site(lt, arg(i).L[0], r)
			}
		}
		return &Val{T: t, L: []string{r}}
	}
	unsup("builtin %s", b.Name())
	return nil
}

// fresh inner array equal to src-range copy over old
func (e *FnEnc) rangeCopied(innerSort, oldInner, dstOff, n, srcInner, srcOff string) string {
	nw := e.decl(e.fresh("cpy"), innerSort)
	ix := e.sorter.idxSort()
	inR := sand(e.idxLe(dstOff, "k"), e.idxLt("k", e.idxAdd(dstOff, n)))
	e.assume(fmt.Sprintf("(forall ((k %s)) (! (= (select %s k) (ite %s (select %s %s) (select %s k))) :pattern ((select %s k))))",
		ix, nw, inR, srcInner, e.idxAdd(srcOff, e.idxSub("k", dstOff)), oldInner, nw))
	return nw
}

func (e *FnEnc) encCopy(cc *ssa.CallCommon, pos token.Pos) *Val {
	dst, src := e.val(cc.Args[0]), e.val(cc.Args[1])
	elT := cc.Args[0].Type().Underlying().(*types.Slice).Elem()
	var n string
	var srcLen string
	srcIsString := isStringType(cc.Args[1].Type())
	if srcIsString {
		srcLen = e.strLen(src.L[0])
	} else {
		srcLen = src.L[2]
	}
	n = site(e.idxLt(dst.L[2], srcLen), dst.L[2], srcLen)
	n = e.define(e.fresh("copyn"), e.sorter.idxSort(), n)
	if isAggregateElem(elT) {
		if srcIsString {
			unsup("copy of a string into a slice of structs")
		}
		// struct elements (memmove): each leaf array gets a fresh version constrained pointwise —
		// dst[k] = old src[k] for k < n, every other slot unchanged
		ix := e.sorter.idxSort()
		e.eaddr(dst.L[0], e.idxConst(0))
		for _, t := range e.objTargets("?", elT) {
			cur := e.heapArr(t.name, t.sort)
			e.havocHeap(t.name)
			nw := e.heapArr(t.name, t.sort)
			dAddr := e.eaddr(dst.L[0], e.idxAdd(dst.L[1], "k"))
			sAddr := e.eaddr(src.L[0], e.idxAdd(src.L[1], "k"))
			e.assume(fmt.Sprintf("(forall ((k %s)) (! (=> (and %s %s) (= (select %s %s) (select %s %s))) :pattern ((select %s %s))))",
				ix, e.idxLe(e.idxConst(0), "k"), e.idxLt("k", n), nw, dAddr, cur, sAddr, nw, dAddr))
			e.assume(fmt.Sprintf("(forall ((r Int)) (! (=> (not (= (eaddr_base r) %s)) (= (select %s r) (select %s r))) :pattern ((select %s r))))", dst.L[0], nw, cur, nw))
			kAddr := e.eaddr(dst.L[0], "k")
			e.assume(fmt.Sprintf("(forall ((k %s)) (! (=> (not (and %s %s)) (= (select %s %s) (select %s %s))) :pattern ((select %s %s))))",
				ix, e.idxLe(dst.L[1], "k"), e.idxLt("k", e.idxAdd(dst.L[1], n)), nw, kAddr, cur, kAddr, nw, kAddr))
		}
		return &Val{T: tInt, L: []string{n}}
	}
	for _, l := range e.sorter.leaves(elT) {
		name := elemArrName(typeName(elT), l.suffix)
		srt := e.arrSort2(l.sort)
		a := e.heapArr(name, srt)
		inner := "(Array " + e.sorter.idxSort() + " " + l.sort + ")"
		var nw string
		if srcIsString {
			nw = e.decl(e.fresh("cpy"), inner)
			ix := e.sorter.idxSort()
			inR := sand(e.idxLe(dst.L[1], "k"), e.idxLt("k", e.idxAdd(dst.L[1], n)))
			e.assume(fmt.Sprintf("(forall ((k %s)) (! (= (select %s k) (ite %s %s (select (select %s %s) k))) :pattern ((select %s k))))",
				ix, nw, inR, e.strAt(src.L[0], e.idxSub("k", dst.L[1])), a, dst.L[0], nw))
		} else {
			nw = e.rangeCopied(inner, "(select "+a+" "+dst.L[0]+")", dst.L[1], n, "(select "+a+" "+src.L[0]+")", src.L[1])
		}
		e.setHeap(name, srt, "(store "+a+" "+dst.L[0]+" "+nw+")")
	}
	return &Val{T: tInt, L: []string{n}}
}

func (e *FnEnc) encAppend(cc *ssa.CallCommon, pos token.Pos) *Val {
	s := e.coerce(e.val(cc.Args[0]), cc.Args[0].Type())
	st := cc.Args[0].Type().Underlying().(*types.Slice)
	elT := st.Elem()
	tail := e.val(cc.Args[1]) // always a slice (variadic packed) or string
	tailIsString := isStringType(cc.Args[1].Type())
	var tn string
	if tailIsString {
		tn = e.strLen(tail.L[0])
	} else {
		tail = e.coerce(tail, cc.Args[1].Type())
		tn = tail.L[2]
	}
	newLen := e.define(e.fresh("applen"), e.sorter.idxSort(), e.idxAdd(s.L[2], tn))
	inPlace := e.define(e.fresh("appinplace"), "Bool", e.idxLe(newLen, s.L[3]))
	fr := e.decl(e.fresh("appbase"), "Int")
	allocA := e.heapArr("$alloc", "(Array Int Bool)")
	e.assume(sand("(> "+fr+" 0)", "(not (select "+allocA+" "+fr+"))"))
	e.setHeap("$alloc", "(Array Int Bool)", "(store "+allocA+" "+fr+" true)")
	ncap := e.decl(e.fresh("appcap"), e.sorter.idxSort())
	e.assume(sand(e.idxLe(newLen, ncap), e.idxLe(ncap, e.idxConst(1<<40))))
	// named, so that the row-view lemma below can use them in a pattern (no `ite` inside patterns)
	base := e.define(e.fresh("appresbase"), "Int", site(inPlace, s.L[0], fr))
	off := e.define(e.fresh("appresoff"), e.sorter.idxSort(), site(inPlace, s.L[1], e.idxConst(0)))
	cp := site(inPlace, s.L[3], ncap)
	res := Val{T: cc.Args[0].Type(), L: []string{base, off, newLen, cp}}
	if isAggregateElem(elT) {
		// struct elements: relate through eaddr, per leaf array with quantified copy
		e.appendAggregate(s, tail, elT, res, inPlace, fr)
		return &res
	}
	for _, l := range e.sorter.leaves(elT) {
		name := elemArrName(typeName(elT), l.suffix)
		srt := e.arrSort2(l.sort)
		a := e.heapArr(name, srt)
		inner := "(Array " + e.sorter.idxSort() + " " + l.sort + ")"
		// in place: tail copied to [off+len, off+len+tn)
		var ip, frA string
		oldInner := "(select " + a + " " + s.L[0] + ")"
		if tailIsString {
			ip = e.decl(e.fresh("appip"), inner)
			ix := e.sorter.idxSort()
			d0 := e.idxAdd(s.L[1], s.L[2])
			inR := sand(e.idxLe(d0, "k"), e.idxLt("k", e.idxAdd(d0, tn)))
			e.assume(fmt.Sprintf("(forall ((k %s)) (! (= (select %s k) (ite %s %s (select %s k))) :pattern ((select %s k))))", ix, ip, inR, e.strAt(tail.L[0], e.idxSub("k", d0)), oldInner, ip))
			frA = e.decl(e.fresh("appfr"), inner)
			inR1 := sand(e.idxLe(e.idxConst(0), "k"), e.idxLt("k", s.L[2]))
			inR2 := sand(e.idxLe(s.L[2], "k"), e.idxLt("k", newLen))
			e.assume(fmt.Sprintf("(forall ((k %s)) (! (and (=> %s (= (select %s k) (select %s %s))) (=> %s (= (select %s k) %s))) :pattern ((select %s k))))", ix, inR1, frA, oldInner, e.idxAdd(s.L[1], "k"), inR2, frA, e.strAt(tail.L[0], e.idxSub("k", s.L[2])), frA))
		} else {
			tailInner := "(select " + a + " " + tail.L[0] + ")"
			ip = e.rangeCopied(inner, oldInner, e.idxAdd(s.L[1], s.L[2]), tn, tailInner, tail.L[1])
			f1 := e.rangeCopied(inner, "(select "+a+" "+fr+")", e.idxConst(0), s.L[2], oldInner, s.L[1])
			frA = e.rangeCopied(inner, f1, s.L[2], tn, tailInner, tail.L[1])
		}
		e.setHeap(name, srt, site(inPlace, "(store "+a+" "+s.L[0]+" "+ip+")", "(store "+a+" "+fr+" "+frA+")"))
		if !tailIsString {
			// consequences of the two cases above, stated over the row-view terms that contract clauses use
			// (so that quantified facts about the old slice are instantiated for reads of the result):
			// result[k] == old[k] for k < len(old), result[len(old)+j] == tail[j]
			ix := e.sorter.idxSort()
			nwA := e.heapArr(name, srt)
			newRead := e.rowRead("(select "+nwA+" "+base+")", inner, off, "k")
			oldRead := e.rowRead(oldInner, inner, s.L[1], "k")
			tailRead := e.rowRead("(select "+a+" "+tail.L[0]+")", inner, tail.L[1], e.idxSub("k", s.L[2]))
			// (a read of the old slice also triggers it: an element known to be somewhere in the old slice is
			// then known to be at the same index of the result)
			e.assume(fmt.Sprintf("(forall ((k %s)) (! (and (=> %s (= %s %s)) (=> %s (= %s %s))) :pattern (%s) :pattern (%s)))", ix,
				sand(e.idxLe(e.idxConst(0), "k"), e.idxLt("k", s.L[2])), newRead, oldRead,
				sand(e.idxLe(s.L[2], "k"), e.idxLt("k", newLen)), newRead, tailRead, newRead, oldRead))
		}
	}
	return &res
}

func (e *FnEnc) appendAggregate(s, tail Val, elT types.Type, res Val, inPlace, fr string) {
	// each leaf array H/T/f gets a fresh version constrained pointwise on the result's elements
	ix := e.sorter.idxSort()
	for _, t := range e.objTargets("?", elT) {
		cur := e.heapArr(t.name, t.sort)
		e.havocHeap(t.name)
		nw := e.heapArr(t.name, t.sort)
		rb, ro := res.L[0], res.L[1]
		// elements of result
		e.assume(fmt.Sprintf("(forall ((k %s)) (! (=> (and %s %s) (= (select %s %s) (ite %s (select %s %s) (select %s %s)))) :pattern ((select %s %s))))",
			ix, e.idxLe(e.idxConst(0), "k"), e.idxLt("k", res.L[2]),
			nw, e.eaddr(rb, e.idxAdd(ro, "k")),
			e.idxLt("k", s.L[2]), cur, e.eaddr(s.L[0], e.idxAdd(s.L[1], "k")), cur, e.eaddr(tail.L[0], e.idxAdd(tail.L[1], e.idxSub("k", s.L[2]))),
			nw, e.eaddr(rb, e.idxAdd(ro, "k"))))
		// the same, stated over the element-address terms that contract clauses use for s[k] (base, offset and
		// index as separate arguments, no `+` inside the pattern)
		if newRead := e.eaddrRel(rb, ro, "k"); newRead != e.eaddr(rb, e.idxAdd(ro, "k")) {
			e.assume(fmt.Sprintf("(forall ((k %s)) (! (=> (and %s %s) (= (select %s %s) (ite %s (select %s %s) (select %s %s)))) :pattern ((select %s %s))))",
				ix, e.idxLe(e.idxConst(0), "k"), e.idxLt("k", res.L[2]),
				nw, newRead,
				e.idxLt("k", s.L[2]), cur, e.eaddrRel(s.L[0], s.L[1], "k"), cur, e.eaddrRel(tail.L[0], tail.L[1], e.idxSub("k", s.L[2])),
				nw, newRead))
		}
		// everything that is not an element slot of the result base is unchanged
		e.assume(fmt.Sprintf("(forall ((r Int)) (! (=> (not (= (eaddr_base r) %s)) (= (select %s r) (select %s r))) :pattern ((select %s r))))", rb, nw, cur, nw))
		// in place: slots below off+len unchanged
		e.assume(fmt.Sprintf("(forall ((k %s)) (! (=> (and %s %s) (= (select %s %s) (select %s %s))) :pattern ((select %s %s))))",
			ix, inPlace, snot(sand(e.idxLe(e.idxAdd(s.L[1], s.L[2]), "k"), e.idxLt("k", e.idxAdd(s.L[1], res.L[2])))),
			nw, e.eaddr(s.L[0], "k"), cur, e.eaddr(s.L[0], "k"), nw, e.eaddr(s.L[0], "k")))
	}
}

// structLoc resolves an expression denoting a struct in memory to (object ref, struct type):
// a pointer-valued expression, or a chain of by-value struct fields below one.
func (e *FnEnc) structLoc(x Expr, env *specEnv, src string) (string, types.Type) {
	if sel, ok := x.(*ESel); ok {
		// try: x = Y.f with f a by-value struct field
		func() {
			defer func() { recover() }()
		}()
		if ref, t, ok := e.tryStructField(sel, env, src); ok {
			return ref, t
		}
	}
	p := env.eval(x)
	pt, ok := typeUnder(p.T).(*types.Pointer)
	if !ok {
		sfail("modifies %s: %s is not a pointer or an embedded struct", src, x)
	}
	return p.L[0], pt.Elem()
}

func (e *FnEnc) tryStructField(sel *ESel, env *specEnv, src string) (ref string, t types.Type, ok bool) {
	defer func() {
		if r := recover(); r != nil {
			if _, isSpec := r.(specErr); isSpec {
				ok = false
				return
			}
			panic(r)
		}
	}()
	// only when the selected field is itself a struct by value
	baseRef, baseT := e.structLoc(sel.X, env, src)
	st, isStruct := baseT.Underlying().(*types.Struct)
	if !isStruct {
		return "", nil, false
	}
	idx, path := findField(st, sel.F)
	if idx < 0 || len(path) != 1 {
		return "", nil, false
	}
	f := st.Field(idx)
	if _, isS := f.Type().Underlying().(*types.Struct); !isS {
		return "", nil, false
	}
	return e.emb(baseRef, idx+1), f.Type(), true
}

package main

// Cone-of-influence pruning of the background assertions of one obligation. Dropping assertions only
// weakens the hypotheses, so any selection is sound; the selection keeps definitions of every symbol
// reachable from the goal and every assumption that talks about a reachable non-guard symbol.

import "strings"

func smtSymbols(s string) []string {
	var out []string
	i := 0
	for i < len(s) {
		c := s[i]
		switch {
		case c == '|':
			j := strings.IndexByte(s[i+1:], '|')
			if j < 0 {
				return out
			}
			out = append(out, s[i:i+j+2])
			i += j + 2
		case c == '(' || c == ')' || c == ' ' || c == '\n' || c == '\t':
			i++
		default:
			j := i
			for j < len(s) && s[j] != '(' && s[j] != ')' && s[j] != ' ' && s[j] != '\n' && s[j] != '|' {
				j++
			}
			tok := s[i:j]
			if !(tok[0] >= '0' && tok[0] <= '9') && tok[0] != '#' && tok[0] != ':' {
				out = append(out, tok)
			}
			i = j
		}
	}
	return out
}

func isGuardSym(s string) bool {
	return strings.HasPrefix(s, "bb") && (len(s) > 2 && (s[2] >= '0' && s[2] <= '9' || s[2] == '_'))
}

// prune returns the indices of assertions (among the first n) to keep for goal/guard
func (e *FnEnc) prune(n int, roots ...string) []bool {
	if e.symCache == nil {
		e.symCache = map[int][]string{}
	}
	syms := func(i int) []string {
		if s, ok := e.symCache[i]; ok {
			return s
		}
		s := smtSymbols(e.asserts[i])
		e.symCache[i] = s
		return s
	}
	// definitions: "(= SYM term)" where SYM is declared
	defOf := map[string][]int{}
	isDef := make([]bool, n)
	for i := 0; i < n; i++ {
		a := e.asserts[i]
		if strings.HasPrefix(a, "(= ") {
			ss := syms(i)
			if len(ss) > 1 && strings.HasPrefix(a[3:], ss[1]+" ") {
				if _, declared := e.declared[ss[1]]; declared {
					defOf[ss[1]] = append(defOf[ss[1]], i)
					isDef[i] = true
				}
			}
		}
	}
	// index: symbol -> non-definition assertions mentioning it
	uses := map[string][]int{}
	for i := 0; i < n; i++ {
		if isDef[i] {
			continue
		}
		for _, s := range syms(i) {
			if isGuardSym(s) {
				continue
			}
			if _, declared := e.declared[s]; !declared {
				if !e.ufs[s] {
					continue
				}
				// uninterpreted functions link too many things (str_len, emb); skip the very common ones
				if s == "str_len" || s == "str_at" || s == "emb" || s == "eaddr" {
					continue
				}
			}
			uses[s] = append(uses[s], i)
		}
	}
	keep := make([]bool, n)
	need := map[string]bool{}
	var work []string
	add := func(s string) {
		if !need[s] {
			need[s] = true
			work = append(work, s)
		}
	}
	for _, r := range roots {
		for _, s := range smtSymbols(r) {
			add(s)
		}
	}
	for len(work) > 0 {
		s := work[len(work)-1]
		work = work[:len(work)-1]
		for _, i := range defOf[s] {
			if !keep[i] {
				keep[i] = true
				for _, t := range syms(i) {
					add(t)
				}
			}
		}
		if isGuardSym(s) {
			continue
		}
		for _, i := range uses[s] {
			if !keep[i] {
				keep[i] = true
				for _, t := range syms(i) {
					add(t)
				}
			}
		}
	}
	return keep
}

package main

// Evaluation of contract expressions to SMT terms in a function context.

import (
	"fmt"
	"go/constant"
	"go/token"
	"go/types"
	"math/big"
	"strings"

	"golang.org/x/tools/go/ssa"
)

type specEnv struct {
	e       *FnEnc
	vars    map[string]Val
	lookup  func(string) (Val, bool)
	st      *State
	old     *State
	loopPre *State
	results []Val
	pkg     *types.Package // package for resolving constants / types (defaults to e.pkg)
	inSpec  bool           // inside a spec function body: heap reads go through formals
	fvs     map[string]Val // captured variables of a closure: name -> address of its cell (read in env.st)
	visRange *ssa.Range    // in a loop invariant of a map-range loop: the iterator whose visited set visited(k) names
	atEntry  bool          // evaluating a precondition that is being ASSUMED at function entry (see EQuant)
}

type specSig struct {
	name   string
	params []Val
	heaps  []string // heap array names read (in order)
	rows   []specRow // rows of slice parameters read
	ret    types.Type
	multi  bool // abstract function whose result has several leaves: one uninterpreted function per leaf
}

type specErr struct{ msg string }

func sfail(f string, a ...interface{}) { panic(specErr{fmt.Sprintf(f, a...)}) }

func (env *specEnv) child() *specEnv {
	n := *env
	n.vars = map[string]Val{}
	for k, v := range env.vars {
		n.vars[k] = v
	}
	return &n
}

func (env *specEnv) pkgOf() *types.Package {
	if env.pkg != nil {
		return env.pkg
	}
	return env.e.pkg
}

func (e *FnEnc) evalBool(x Expr, env *specEnv, c *Clause) (res string) {
	defer func() {
		if r := recover(); r != nil {
			if se, ok := r.(specErr); ok {
				where := ""
				if c != nil {
					where = fmt.Sprintf("%s:%d: ", c.File, c.Line)
				}
				panic(unsupported{where + "contract expression `" + x.String() + "`: " + se.msg})
			}
			panic(r)
		}
	}()
	v := env.eval(x)
	if len(v.L) != 1 || !(v.T == nil || isBoolType(v.T)) {
		sfail("not a boolean")
	}
	return v.L[0]
}

func (env *specEnv) withState(st *State, f func() Val) Val {
	e := env.e
	save := e.st
	e.st = st
	defer func() { e.st = save }()
	return f()
}

func (env *specEnv) resolveType(name string) types.Type {
	pkg := env.pkgOf()
	switch name {
	case "int":
		return tInt
	case "byte", "uint8":
		return tByte
	case "bool":
		return tBool
	case "string":
		return tString
	case "ref":
		return types.NewPointer(types.NewStruct(nil, nil))
	}
	// qualified names: [*|[]]pkg.Type (imports are not visible in the package scope)
	if i := strings.LastIndex(name, "."); i > 0 {
		prefix := ""
		rest := name
		for strings.HasPrefix(rest, "*") || strings.HasPrefix(rest, "[]") {
			if rest[0] == '*' {
				prefix += "*"
				rest = rest[1:]
			} else {
				prefix += "[]"
				rest = rest[2:]
			}
		}
		if j := strings.LastIndex(rest, "."); j > 0 {
			if p := env.e.prog.pkgByNameOrPath(rest[:j]); p != nil {
				if tn, ok := p.Scope().Lookup(rest[j+1:]).(*types.TypeName); ok {
					var t types.Type = tn.Type()
					for k := len(prefix); k > 0; {
						if prefix[k-1] == '*' {
							t = types.NewPointer(t)
							k--
						} else {
							t = types.NewSlice(t)
							k -= 2
						}
					}
					return t
				}
			}
		}
	}
	tv, err := types.Eval(env.e.prog.fset, pkg, token.NoPos, name)
	if err != nil || tv.Type == nil {
		sfail("cannot resolve type %q: %v", name, err)
	}
	return tv.Type
}

func (env *specEnv) litVal(v *big.Int) Val {
	return Val{T: nil, L: []string{smtInt(v)}, Lit: v}
}

// give an untyped literal the type t
func (env *specEnv) typed(v Val, t types.Type) Val {
	if v.T != nil || v.Lit == nil || t == nil {
		return v
	}
	if isIntType(t) {
		return Val{T: t, L: []string{env.e.sorter.constInt(v.Lit, t)}}
	}
	return v
}

func (env *specEnv) eval(x Expr) Val {
	e := env.e
	switch n := x.(type) {
	case *EInt:
		return env.litVal(n.V)
	case *EBool:
		if n.V {
			return Val{T: tBool, L: []string{"true"}}
		}
		return Val{T: tBool, L: []string{"false"}}
	case *EStr:
		return Val{T: tString, L: []string{e.strLit(n.V)}}
	case *EIdent:
		return env.ident(n.Name)
	case *EUnary:
		v := env.eval(n.X)
		switch n.Op {
		case "!":
			return Val{T: tBool, L: []string{snot(v.L[0])}}
		case "-":
			if v.Lit != nil {
				return env.litVal(new(big.Int).Neg(v.Lit))
			}
			return Val{T: v.T, L: []string{e.unop(token.SUB, v.L[0], v.T, false)}}
		case "^":
			return Val{T: v.T, L: []string{e.unop(token.XOR, v.L[0], v.T, false)}}
		}
	case *EStar:
		p := env.eval(n.X)
		return env.withState(env.st, func() Val { return e.deref(p) })
	case *EBinary:
		return env.binary(n)
	case *ECond:
		c := env.eval(n.C)
		a, b := env.eval(n.A), env.eval(n.B)
		a, b = env.unify(a, b)
		return e.iteVal(c.L[0], a, b)
	case *ECall:
		return env.call(n)
	case *EIndex:
		return env.index(n)
	case *ESlice:
		s := env.eval(n.X)
		lo, hi := e.idxConst(0), ""
		if n.Lo != nil {
			lo = env.asIdx(env.eval(n.Lo))
		}
		if isStringType(s.T) {
			hi = e.strLen(s.L[0])
			if n.Hi != nil {
				hi = env.asIdx(env.eval(n.Hi))
			}
			return Val{T: s.T, L: []string{e.strSub(s.L[0], lo, hi)}}
		}
		if _, ok := s.T.Underlying().(*types.Slice); !ok {
			sfail("slicing a non-slice")
		}
		hi = s.L[2]
		if n.Hi != nil {
			hi = env.asIdx(env.eval(n.Hi))
		}
		return Val{T: s.T, L: []string{s.L[0], e.idxAdd(s.L[1], lo), e.idxSub(hi, lo), e.idxSub(s.L[3], lo)}}
	case *ESel:
		return env.sel(n)
	case *EQuant:
		t := env.resolveType(n.Typ)
		ls := e.sorter.leaves(t)
		if len(ls) != 1 {
			sfail("quantified variable must be scalar")
		}
		e.nfresh++
		vn := fmt.Sprintf("%s!q%d", n.Var, e.nfresh)
		c := env.child()
		c.vars[n.Var] = Val{T: t, L: []string{quoteSym(vn)}}
		nFacts := len(e.rangeFacts)
		body := c.eval(n.Body)
		var pats []string
		for _, tr := range n.Trig {
			tv := c.eval(tr)
			pats = append(pats, tv.L...)
		}
		// facts about terms containing the bound variable cannot be asserted globally. Where a universally
		// quantified precondition is being assumed at function entry they are facts about the entry state
		// (ranges; a stored reference is nil or an object that already exists) and are assumed with it.
		if inner := e.rangeFacts[nFacts:]; env.atEntry && n.Forall && len(inner) > 0 && len(body.L) == 1 {
			body = Val{T: body.T, L: []string{sand(append([]string{body.L[0]}, inner...)...)}}
		}
		e.rangeFacts = e.rangeFacts[:nFacts]
		rng := e.sorter.rangeOf(quoteSym(vn), t)
		if _, isPtr := t.Underlying().(*types.Pointer); isPtr {
			rng = ""
		}
		q := "forall"
		b := body.L[0]
		if n.Forall {
			if rng != "" {
				b = simp(rng, b)
			}
		} else {
			q = "exists"
			if rng != "" {
				b = sand(rng, b)
			}
		}
		if len(pats) > 0 {
			// user-given instantiation pattern (a multi-pattern when several terms are listed)
			b = "(! " + b + " :pattern (" + strings.Join(pats, " ") + "))"
		}
		return Val{T: tBool, L: []string{fmt.Sprintf("(%s ((%s %s)) %s)", q, quoteSym(vn), ls[0].sort, b)}}
	}
	sfail("unsupported expression %T", x)
	return Val{}
}

func (env *specEnv) asIdx(v Val) string {
	if v.Lit != nil {
		return env.e.sorter.constInt(v.Lit, tInt)
	}
	if v.T != nil && isIntType(v.T) {
		return env.e.sorter.convIdx(v.L[0], v.T)
	}
	sfail("index is not an integer")
	return ""
}

func (env *specEnv) ident(name string) Val {
	if v, ok := env.vars[name]; ok {
		return v
	}
	if p, ok := env.fvs[name]; ok {
		return env.withState(env.st, func() Val { return env.e.deref(p) })
	}
	if name == "nil" {
		return Val{T: nil, L: []string{"0"}}
	}
	if name == "result" || name == "result0" {
		if len(env.results) > 0 {
			return env.results[0]
		}
	}
	if strings.HasPrefix(name, "result") {
		var i int
		if _, err := fmt.Sscanf(name, "result%d", &i); err == nil && i < len(env.results) {
			return env.results[i]
		}
	}
	if env.lookup != nil {
		if v, ok := env.lookup(name); ok {
			return v
		}
	}
	// package-level constant or variable
	if pkg := env.pkgOf(); pkg != nil {
		if obj := pkg.Scope().Lookup(name); obj != nil {
			switch o := obj.(type) {
			case *types.Const:
				return env.constObj(o)
			case *types.Var:
				return env.globalVar(o)
			}
		}
	}
	sfail("unknown identifier %q", name)
	return Val{}
}

func (env *specEnv) constObj(o *types.Const) Val {
	e := env.e
	switch o.Val().Kind() {
	case constant.Int:
		bi, ok := constant.Val(o.Val()).(*big.Int)
		if !ok {
			i64, _ := constant.Int64Val(o.Val())
			bi = big.NewInt(i64)
		}
		t := o.Type()
		if b, ok := t.Underlying().(*types.Basic); ok && b.Info()&types.IsUntyped != 0 {
			return env.litVal(bi)
		}
		return Val{T: t, L: []string{e.sorter.constInt(bi, t)}, Lit: nil}
	case constant.Bool:
		if constant.BoolVal(o.Val()) {
			return Val{T: tBool, L: []string{"true"}}
		}
		return Val{T: tBool, L: []string{"false"}}
	case constant.String:
		return Val{T: tString, L: []string{e.strLit(constant.StringVal(o.Val()))}}
	}
	sfail("unsupported constant %s", o.Name())
	return Val{}
}

func (env *specEnv) globalVar(o *types.Var) Val {
	e := env.e
	name := o.Pkg().Name() + "." + o.Name()
	if isAggregateElem(o.Type()) {
		r := e.decl("glob:"+name, "Int")
		return env.withState(env.st, func() Val { return e.loadObj(r, o.Type()) })
	}
	return env.withState(env.st, func() Val {
		return e.loadLoc(&Loc{Kind: "global", ObjT: name, T: o.Type()})
	})
}

// make two operands type-compatible (untyped literals adopt the other's type; nil adopts shape)
func (env *specEnv) unify(a, b Val) (Val, Val) {
	e := env.e
	if a.T == nil && b.T != nil {
		if a.Lit != nil {
			a = env.typed(a, b.T)
		} else if len(a.L) == 1 && a.L[0] == "0" {
			a = e.zeroVal(b.T)
		}
	}
	if b.T == nil && a.T != nil {
		if b.Lit != nil {
			b = env.typed(b, a.T)
		} else if len(b.L) == 1 && b.L[0] == "0" {
			b = e.zeroVal(a.T)
		}
	}
	if a.T == nil && b.T == nil && a.Lit != nil && b.Lit != nil && e.sorter.mode == ModeBV {
		a, b = env.typed(a, tInt), env.typed(b, tInt)
	}
	// differing integer widths in BV mode: widen the narrower
	if e.sorter.mode == ModeBV && a.T != nil && b.T != nil && isIntType(a.T) && isIntType(b.T) {
		wa, wb := intWidth(a.T), intWidth(b.T)
		if wa < wb {
			a = Val{T: b.T, L: []string{e.sorter.convInt(a.L[0], a.T, b.T)}}
		} else if wb < wa {
			b = Val{T: a.T, L: []string{e.sorter.convInt(b.L[0], b.T, a.T)}}
		}
	}
	return a, b
}

var binTok = map[string]token.Token{"+": token.ADD, "-": token.SUB, "*": token.MUL, "/": token.QUO, "%": token.REM,
	"&": token.AND, "|": token.OR, "^": token.XOR, "<<": token.SHL, ">>": token.SHR, "&^": token.AND_NOT,
	"==": token.EQL, "!=": token.NEQ, "<": token.LSS, "<=": token.LEQ, ">": token.GTR, ">=": token.GEQ,
	"&&": token.LAND, "||": token.LOR}

func (env *specEnv) binary(n *EBinary) Val {
	e := env.e
	switch n.Op {
	case "==>":
		a, b := env.eval(n.X), env.eval(n.Y)
		return Val{T: tBool, L: []string{simp(a.L[0], b.L[0])}}
	case "<==>":
		a, b := env.eval(n.X), env.eval(n.Y)
		return Val{T: tBool, L: []string{seq(a.L[0], b.L[0])}}
	case "&&":
		a, b := env.eval(n.X), env.eval(n.Y)
		return Val{T: tBool, L: []string{sand(a.L[0], b.L[0])}}
	case "||":
		a, b := env.eval(n.X), env.eval(n.Y)
		return Val{T: tBool, L: []string{sor(a.L[0], b.L[0])}}
	}
	a, b := env.eval(n.X), env.eval(n.Y)
	op := binTok[n.Op]
	if a.Lit != nil && b.Lit != nil {
		// constant folding
		r := new(big.Int)
		switch n.Op {
		case "+":
			return env.litVal(r.Add(a.Lit, b.Lit))
		case "-":
			return env.litVal(r.Sub(a.Lit, b.Lit))
		case "*":
			return env.litVal(r.Mul(a.Lit, b.Lit))
		case "<<":
			return env.litVal(r.Lsh(a.Lit, uint(b.Lit.Int64())))
		case ">>":
			return env.litVal(r.Rsh(a.Lit, uint(b.Lit.Int64())))
		case "/":
			return env.litVal(r.Quo(a.Lit, b.Lit))
		case "%":
			return env.litVal(r.Rem(a.Lit, b.Lit))
		}
	}
	isShift := n.Op == "<<" || n.Op == ">>"
	if isShift {
		if a.T == nil {
			a = env.typed(a, tInt)
		}
		if b.Lit != nil {
			if e.sorter.mode == ModeBV {
				b = env.typed(b, a.T)
			} else {
				b = Val{T: types.Typ[types.Uint], L: []string{b.Lit.String()}}
			}
		}
	} else {
		a, b = env.unify(a, b)
	}
	cmp := op == token.EQL || op == token.NEQ
	if cmp && (len(a.L) != 1 || (a.T != nil && !isIntType(a.T) && !isBoolType(a.T))) {
		// structural equality over leaves (slices: header equality; strings: ids)
		if isStringType(a.T) {
			e.strExtensionality()
		}
		if len(a.L) != len(b.L) {
			// interface vs concrete nil etc.
			if len(b.L) == 1 && b.L[0] == "0" {
				b = Val{L: make([]string, len(a.L))}
				for i := range b.L {
					b.L[i] = "0"
				}
			} else if _, isI := typeUnder(a.T).(*types.Interface); isI && len(a.L) == 2 && b.T != nil && !types.IsInterface(b.T) {
				// interface == concrete value: Go converts the concrete operand to the interface type
				b = env.withState(env.st, func() Val { return e.makeIface(b, b.T) })
			} else if _, isI := typeUnder(b.T).(*types.Interface); b.T != nil && isI && len(b.L) == 2 && a.T != nil && !types.IsInterface(a.T) {
				a = env.withState(env.st, func() Val { return e.makeIface(a, a.T) })
			} else {
				sfail("comparing values of different shapes")
			}
		}
		var cs []string
		if _, isSl := typeUnder(a.T).(*types.Slice); isSl {
			cs = []string{seq(a.L[0], b.L[0])}
		} else if _, isI := typeUnder(a.T).(*types.Interface); isI && len(b.L) == 2 && b.L[0] == "0" {
			cs = []string{seq(a.L[0], "0")}
		} else {
			for i := range a.L {
				cs = append(cs, seq(a.L[i], b.L[i]))
			}
		}
		r := sand(cs...)
		if op == token.NEQ {
			r = snot(r)
		}
		return Val{T: tBool, L: []string{r}}
	}
	t := a.T
	if t == nil {
		t = b.T
	}
	if t == nil {
		t = tInt
		a, b = env.typed(a, tInt), env.typed(b, tInt)
	}
	if op == token.ADD && isStringType(t) {
		// string concatenation, as in code
		f := e.uf("str_cat", []string{"Int", "Int"}, "Int")
		e.catAxioms()
		return Val{T: t, L: []string{"(" + f + " " + a.L[0] + " " + b.L[0] + ")"}}
	}
	r, _ := e.binop(op, a.L[0], b.L[0], t, b.T, false)
	rt := t
	if opResultSort(op) == "Bool" {
		rt = tBool
	}
	return Val{T: rt, L: []string{r}}
}

func typeUnder(t types.Type) types.Type {
	if t == nil {
		return nil
	}
	return t.Underlying()
}

func (env *specEnv) index(n *EIndex) Val {
	e := env.e
	// element of a package-level array: address it without materialising the whole array
	if id, ok := n.X.(*EIdent); ok {
		if _, local := env.vars[id.Name]; !local && env.pkgOf() != nil {
			if v, ok := env.pkgOf().Scope().Lookup(id.Name).(*types.Var); ok {
				if at, ok := v.Type().Underlying().(*types.Array); ok {
					found := false
					if env.lookup != nil {
						_, found = env.lookup(id.Name)
					}
					if !found {
						r := e.decl("glob:"+v.Pkg().Name()+"."+v.Name(), "Int")
						i := env.asIdx(env.eval(n.I))
						return env.withState(env.st, func() Val {
							if isAggregateElem(at.Elem()) {
								return e.loadObj(e.eaddr(r, i), at.Elem())
							}
							return e.loadLoc(&Loc{Kind: "elem", ObjT: typeName(at.Elem()), Ref: r, Idx: i, T: at.Elem()})
						})
					}
				}
			}
		}
	}
	s := env.eval(n.X)
	if s.T == nil {
		sfail("indexing an untyped value")
	}
	switch t := s.T.Underlying().(type) {
	case *types.Slice:
		i := env.asIdx(env.eval(n.I))
		return env.closedAtEntry(env.withState(env.st, func() Val { return e.sliceElem(s, i) }))
	case *types.Basic:
		if isStringType(s.T) {
			i := env.asIdx(env.eval(n.I))
			return Val{T: tByte, L: []string{e.strAt(s.L[0], i)}}
		}
	case *types.Array:
		i := env.asIdx(env.eval(n.I))
		v := Val{T: t.Elem()}
		for k := range s.L {
			v.L = append(v.L, "(select "+s.L[k]+" "+i+")")
		}
		return v
	case *types.Map:
		kv := env.eval(n.I)
		kv = env.typed(kv, t.Key())
		return env.withState(env.st, func() Val {
			v, _ := e.mapGet(s.L[0], t, e.mapKey(t, kv))
			return v
		})
	case *types.Pointer:
		if at, ok := t.Elem().Underlying().(*types.Array); ok {
			i := env.asIdx(env.eval(n.I))
			return env.withState(env.st, func() Val {
				if isAggregateElem(at.Elem()) {
					return e.loadObj(e.eaddr(s.L[0], i), at.Elem())
				}
				return e.loadLoc(&Loc{Kind: "elem", ObjT: typeName(at.Elem()), Ref: s.L[0], Idx: i, T: at.Elem()})
			})
		}
	}
	sfail("cannot index %s", s.T)
	return Val{}
}

func (env *specEnv) sel(n *ESel) Val {
	e := env.e
	// package-qualified constant: pkg.Name
	if id, ok := n.X.(*EIdent); ok {
		if _, isVar := env.vars[id.Name]; !isVar {
			if p := e.prog.pkgByName(id.Name); p != nil {
				found := false
				if env.lookup != nil {
					_, found = env.lookup(id.Name)
				}
				if !found {
					if obj := p.Scope().Lookup(n.F); obj != nil {
						switch o := obj.(type) {
						case *types.Const:
							return env.constObj(o)
						case *types.Var:
							return env.globalVar(o)
						}
					}
				}
			}
		}
	}
	x := env.eval(n.X)
	if x.T == nil {
		sfail("selecting from untyped value")
	}
	t := x.T
	if pt, ok := t.Underlying().(*types.Pointer); ok {
		st, ok := pt.Elem().Underlying().(*types.Struct)
		if !ok {
			sfail("field of non-struct pointer")
		}
		idx, path := findField(st, n.F)
		if idx < 0 {
			sfail("no field %s in %s", n.F, pt.Elem())
		}
		ref := x.L[0]
		cur := pt.Elem()
		return env.closedAtEntry(env.withState(env.st, func() Val {
			// path through embedded structs
			for k, i := range path {
				if k == len(path)-1 {
					return e.loadField(ref, cur, i)
				}
				f := cur.Underlying().(*types.Struct).Field(i)
				if p2, ok := f.Type().Underlying().(*types.Pointer); ok {
					ref = e.loadField(ref, cur, i).L[0]
					cur = p2.Elem()
				} else {
					ref = e.emb(ref, i+1)
					cur = f.Type()
				}
			}
			return Val{}
		}))
	}
	if st, ok := t.Underlying().(*types.Struct); ok {
		idx, path := findField(st, n.F)
		if idx < 0 || len(path) != 1 {
			sfail("no direct field %s in %s", n.F, t)
		}
		lo, hi := e.sorter.fieldRange(st, idx)
		return Val{T: st.Field(idx).Type(), L: x.L[lo:hi]}
	}
	sfail("cannot select %s from %s", n.F, t)
	return Val{}
}

// find field by name, following embedded structs; returns index path
func findField(st *types.Struct, name string) (int, []int) {
	for i := 0; i < st.NumFields(); i++ {
		if st.Field(i).Name() == name {
			return i, []int{i}
		}
	}
	for i := 0; i < st.NumFields(); i++ {
		f := st.Field(i)
		if !f.Embedded() {
			continue
		}
		ft := f.Type()
		if p, ok := ft.Underlying().(*types.Pointer); ok {
			ft = p.Elem()
		}
		if s2, ok := ft.Underlying().(*types.Struct); ok {
			if j, path := findField(s2, name); j >= 0 {
				return i, append([]int{i}, path...)
			}
		}
	}
	return -1, nil
}

var convNames = map[string]types.Type{"int": tInt, "uint": types.Typ[types.Uint], "byte": tByte, "uint8": tByte,
	"uint16": types.Typ[types.Uint16], "uint32": types.Typ[types.Uint32], "uint64": types.Typ[types.Uint64],
	"int8": types.Typ[types.Int8], "int16": types.Typ[types.Int16], "int32": types.Typ[types.Int32], "int64": types.Typ[types.Int64]}

func (env *specEnv) call(n *ECall) Val {
	e := env.e
	switch n.Fun {
	case "len", "cap":
		v := env.eval(n.Args[0])
		if v.T == nil {
			sfail("len of untyped")
		}
		switch t := v.T.Underlying().(type) {
		case *types.Slice:
			if n.Fun == "len" {
				// a slice length is never negative (a fact of the Go type, also for headers read from the heap)
				e.rangeFacts = append(e.rangeFacts, e.idxLe(e.idxConst(0), v.L[2]), e.idxLe(v.L[2], e.idxConst(1<<40)))
				return Val{T: tInt, L: []string{v.L[2]}}
			}
			return Val{T: tInt, L: []string{v.L[3]}}
		case *types.Basic:
			return Val{T: tInt, L: []string{e.strLen(v.L[0])}}
		case *types.Array:
			return Val{T: tInt, L: []string{e.idxConst(t.Len())}}
		case *types.Pointer:
			if at, ok := t.Elem().Underlying().(*types.Array); ok {
				return Val{T: tInt, L: []string{e.idxConst(at.Len())}}
			}
		}
		sfail("len of %s", v.T)
	case "old":
		c := *env
		c.st = env.old
		if env.lookup != nil {
			// at a program point `old` still means function entry: the heap is the entry heap and
			// parameter names denote their entry values; other locals keep their current values
			outer := env.lookup
			c.lookup = func(name string) (Val, bool) {
				if v, ok := e.params[name]; ok {
					return v, true
				}
				return outer(name)
			}
			c.vars = map[string]Val{}
			for k, v := range e.params {
				c.vars[k] = v
			}
			for k, v := range env.vars {
				if _, isParam := e.params[k]; !isParam {
					c.vars[k] = v
				}
			}
		}
		return c.eval(n.Args[0])
	case "pre":
		// value of a heap expression at loop entry (after the entry edge, before any iteration)
		if env.loopPre == nil {
			sfail("pre() outside a loop invariant")
		}
		c := *env
		c.st = env.loopPre
		return c.eval(n.Args[0])
	case "min", "max":
		a, b := env.unify(env.eval(n.Args[0]), env.eval(n.Args[1]))
		t := a.T
		if t == nil {
			t = tInt
			a, b = env.typed(a, t), env.typed(b, t)
		}
		lt, _ := e.binop(token.LSS, a.L[0], b.L[0], t, t, false)
		if n.Fun == "min" {
			return Val{T: t, L: []string{site(lt, a.L[0], b.L[0])}}
		}
		return Val{T: t, L: []string{site(lt, b.L[0], a.L[0])}}
	case "typeis":
		// typeis(x, "pkg.Type") / typeis(x, "*pkg.Type"): dynamic type test on an interface value
		v := env.eval(n.Args[0])
		s, ok := n.Args[1].(*EStr)
		if !ok || len(v.L) != 2 {
			sfail("typeis(iface, \"type\")")
		}
		t := env.resolveType(s.V)
		if it, isI := t.Underlying().(*types.Interface); isI {
			// typeis(x, "Iface"): the dynamic type of x implements the interface (what `x.(Iface)` tests)
			return Val{T: tBool, L: []string{e.implementsCond(v.L[0], it)}}
		}
		return Val{T: tBool, L: []string{seq(v.L[0], e.typeTag(t))}}
	case "apply":
		// apply(f, args...): the result of calling the pure function value f
		f := env.eval(n.Args[0])
		var as []Val
		for _, a := range n.Args[1:] {
			as = append(as, env.eval(a))
		}
		return e.applyTerm(f, as, env)
	case "visited":
		// visited(k): key k has already been produced by the map iteration of the loop this invariant belongs to
		if env.visRange == nil {
			sfail("visited(k) outside the invariant of a loop ranging over a map")
		}
		mt := env.visRange.X.Type().Underlying().(*types.Map)
		kv := env.typed(env.eval(n.Args[0]), mt.Key())
		r := env.visRange
		return env.withState(env.st, func() Val { return Val{T: tBool, L: []string{e.visitedTerm(r, kv)}} })
	case "has":
		// has(m, k): key k is present in map m
		m := env.eval(n.Args[0])
		mt, ok := typeUnder(m.T).(*types.Map)
		if !ok {
			sfail("has(map, key)")
		}
		kv := env.typed(env.eval(n.Args[1]), mt.Key())
		return env.withState(env.st, func() Val {
			_, present := e.mapGet(m.L[0], mt, e.mapKey(mt, kv))
			return Val{T: tBool, L: []string{sand(snot(seq(m.L[0], "0")), present)}}
		})
	case "allocated":
		v := env.eval(n.Args[0])
		a := env.withState(env.old, func() Val { return Val{L: []string{e.heapArr("$alloc", "(Array Int Bool)")}} })
		return Val{T: tBool, L: []string{"(select " + a.L[0] + " " + v.L[0] + ")"}}
	case "allocatedNow":
		// allocatedNow(x): x exists in the state the clause is evaluated in (allocated(x): at function entry)
		v := env.eval(n.Args[0])
		return env.withState(env.st, func() Val {
			return Val{T: tBool, L: []string{"(select " + e.heapArr("$alloc", "(Array Int Bool)") + " " + v.L[0] + ")"}}
		})
	case "closed":
		// closed(c): channel c has been closed (the bit close(c) sets; a second close would panic)
		v := env.eval(n.Args[0])
		return env.withState(env.st, func() Val {
			return Val{T: tBool, L: []string{"(select " + e.heapArr("C/closed", "(Array Int Bool)") + " " + v.L[0] + ")"}}
		})
	case "disjoint":
		// the two slices share no backing array (nil slices are disjoint from everything)
		a, b := env.eval(n.Args[0]), env.eval(n.Args[1])
		return Val{T: tBool, L: []string{sor(snot(seq(a.L[0], b.L[0])), seq(a.L[0], "0"))}}
	case "sameptr":
		a, b := env.eval(n.Args[0]), env.eval(n.Args[1])
		return Val{T: tBool, L: []string{sand(seq(a.L[0], b.L[0]), seq(a.L[1], b.L[1]))}}
	case "sameslice":
		// the same slice value: same array, window and capacity
		a, b := env.eval(n.Args[0]), env.eval(n.Args[1])
		return Val{T: tBool, L: []string{sand(seq(a.L[0], b.L[0]), seq(a.L[1], b.L[1]), seq(a.L[2], b.L[2]), seq(a.L[3], b.L[3]))}}
	case "base":
		a := env.eval(n.Args[0])
		return Val{T: types.NewPointer(types.NewStruct(nil, nil)), L: []string{a.L[0]}}
	case "off":
		a := env.eval(n.Args[0])
		return Val{T: tInt, L: []string{a.L[1]}}
	case "unbox":
		// unbox(x, "T"): the value of dynamic type T held by interface value x (meaningful when typeis(x, "T"))
		v := env.eval(n.Args[0])
		s, ok := n.Args[1].(*EStr)
		if !ok || len(v.L) != 2 {
			sfail("unbox(iface, \"type\")")
		}
		t := env.resolveType(s.V)
		return env.withState(env.st, func() Val { return e.unboxIface(v, t) })
	case "embed":
		// embed(p, "field"): reference of the struct-valued field embedded in *p
		p := env.eval(n.Args[0])
		s, ok := n.Args[1].(*EStr)
		pt, ok2 := typeUnder(p.T).(*types.Pointer)
		if !ok || !ok2 {
			sfail("embed(ptr, \"field\")")
		}
		st := pt.Elem().Underlying().(*types.Struct)
		idx, path := findField(st, s.V)
		if idx < 0 || len(path) != 1 {
			sfail("embed: no field %s", s.V)
		}
		return Val{T: types.NewPointer(st.Field(idx).Type()), L: []string{e.emb(p.L[0], idx+1)}}
	}
	if t, ok := convNames[n.Fun]; ok && len(n.Args) == 1 {
		v := env.eval(n.Args[0])
		if v.Lit != nil {
			return Val{T: t, L: []string{e.sorter.constInt(v.Lit, t)}}
		}
		if v.T == nil || !isIntType(v.T) {
			sfail("conversion of non-integer")
		}
		if e.sorter.mode == ModeBV {
			return Val{T: t, L: []string{e.sorter.convInt(v.L[0], v.T, t)}}
		}
		// Int mode, spec level: mathematical value is kept when it fits; otherwise wrap (as Go would)
		return Val{T: t, L: []string{e.sorter.convInt(v.L[0], v.T, t)}}
	}
	// spec function
	if sf := e.prog.findSpec(env.pkgOf(), n.Fun); sf != nil {
		return env.callSpec(sf, n.Args)
	}
	// pure Go function/method with contract used in spec position: f(args) where contract is `pure`
	sfail("unknown function %q", n.Fun)
	return Val{}
}

// ---- spec functions ----

func (env *specEnv) callSpec(sf *SpecFunc, args []Expr) Val {
	e := env.e
	if len(args) != len(sf.Params) {
		sfail("spec %s: wrong number of arguments", sf.Name)
	}
	sig := e.defineSpec(sf)
	var actual []string
	var argVals []Val
	for i, a := range args {
		v := env.eval(a)
		pt := sig.params[i].T
		v = env.typed(v, pt)
		if v.T == nil && len(v.L) == 1 && v.L[0] == "0" {
			v = e.zeroVal(pt)
		}
		if e.sorter.mode == ModeBV && v.T != nil && isIntType(v.T) && isIntType(pt) && intWidth(v.T) != intWidth(pt) {
			v = Val{T: pt, L: []string{e.sorter.convInt(v.L[0], v.T, pt)}}
		}
		if len(v.L) != len(sig.params[i].L) {
			sfail("spec %s: argument %d has the wrong shape", sf.Name, i)
		}
		actual = append(actual, v.L...)
		argVals = append(argVals, v)
	}
	// current heap arrays
	save := e.st
	e.st = env.st
	// rows of the slice arguments (the row of the actual's backing array in the current heap)
	for _, r := range sig.rows {
		pi := -1
		for i, p := range sf.Params {
			if p.Name == r.param {
				pi = i
			}
		}
		base := argVals[pi].L[0]
		if e.st.epoch == -1 {
			if row, ok := e.specRowFor(base, r.arr, r.sort); ok {
				actual = append(actual, row)
				continue
			}
		}
		actual = append(actual, "(select "+e.heapArr(r.arr, "(Array Int "+r.sort+")")+" "+base+")")
	}
	for _, h := range sig.heaps {
		actual = append(actual, e.heapArr(h, e.heapSort[h]))
	}
	e.st = save
	if sig.multi {
		out := Val{T: sig.ret}
		for _, l := range e.sorter.leaves(sig.ret) {
			t := quoteSym("sf_" + sf.Name + l.suffix)
			if len(actual) > 0 {
				t = "(" + t + " " + strings.Join(actual, " ") + ")"
			}
			out.L = append(out.L, t)
		}
		return out
	}
	t := quoteSym("sf_" + sf.Name)
	if len(actual) > 0 {
		t = "(" + t + " " + strings.Join(actual, " ") + ")"
	}
	return Val{T: sig.ret, L: []string{t}}
}

func (e *FnEnc) defineSpec(sf *SpecFunc) *specSig {
	key := sf.PkgPath + "::" + sf.Name
	if s, ok := e.specDone[key]; ok {
		if s == nil {
			sfail("spec %s: mutual recursion not supported", sf.Name)
		}
		return s
	}
	pkg := e.prog.typesPkg(sf.PkgPath)
	if pkg == nil {
		pkg = e.pkg
	}
	env := &specEnv{e: e, vars: map[string]Val{}, pkg: pkg}
	sig := &specSig{name: sf.Name}
	var formals []string
	for _, p := range sf.Params {
		t := env.resolveType(p.Typ)
		v := Val{T: t}
		for _, l := range e.sorter.leaves(t) {
			fn := quoteSym("f_" + p.Name + l.suffix)
			v.L = append(v.L, fn)
			formals = append(formals, "("+fn+" "+l.sort+")")
		}
		env.vars[p.Name] = v
		sig.params = append(sig.params, v)
	}
	sig.ret = env.resolveType(sf.Ret)
	rl := e.sorter.leaves(sig.ret)
	_, isAbstractBody := sf.Body.(*EIdent)
	if isAbstractBody {
		isAbstractBody = sf.Body.(*EIdent).Name == "abstract"
	}
	if len(rl) != 1 && !(isAbstractBody && len(rl) > 1) {
		sfail("spec %s: result must be scalar", sf.Name)
	}
	// abstract spec function: uninterpreted function of its arguments and of the contents of its
	// slice arguments (the element arrays of their element types)
	if id, ok := sf.Body.(*EIdent); ok && id.Name == "abstract" {
		var sorts []string
		for pi, pv := range sig.params {
			for _, l := range e.sorter.leaves(pv.T) {
				sorts = append(sorts, l.sort)
			}
			if sl, ok := pv.T.Underlying().(*types.Slice); ok && !isAggregateElem(sl.Elem()) {
				for _, l := range e.sorter.leaves(sl.Elem()) {
					name := elemArrName(typeName(sl.Elem()), l.suffix)
					if _, known := e.heapSort[name]; !known {
						save := e.st
						e.st = e.st0
						e.heapArr(name, e.arrSort2(l.sort))
						e.st = save
					}
					sig.rows = append(sig.rows, specRow{sf.Params[pi].Name, name, "(Array " + e.sorter.idxSort() + " " + l.sort + ")"})
				}
			}
		}
		for _, r := range sig.rows {
			sorts = append(sorts, r.sort)
		}
		if len(rl) > 1 {
			// a result of several leaves (an interface value: dynamic type and payload): one function per leaf
			for _, l := range rl {
				e.specDefs = append(e.specDefs, fmt.Sprintf("(declare-fun %s (%s) %s)", quoteSym("sf_"+sf.Name+l.suffix), strings.Join(sorts, " "), l.sort))
			}
			sig.multi = true
			e.specDone[key] = sig
			return sig
		}
		e.specDefs = append(e.specDefs, fmt.Sprintf("(declare-fun %s (%s) %s)", quoteSym("sf_"+sf.Name), strings.Join(sorts, " "), rl[0].sort))
		// the result is a value of its Go type (e.g. an int is within the int range)
		if len(sorts) > 0 && isIntType(sig.ret) {
			var bs, as []string
			for i, s := range sorts {
				bs = append(bs, fmt.Sprintf("(a!%d %s)", i, s))
				as = append(as, fmt.Sprintf("a!%d", i))
			}
			app := "(" + quoteSym("sf_"+sf.Name) + " " + strings.Join(as, " ") + ")"
			if rng := e.sorter.rangeOf(app, sig.ret); rng != "" {
				e.specDefs = append(e.specDefs, fmt.Sprintf("(assert (forall (%s) (! %s :pattern (%s))))", strings.Join(bs, " "), rng, app))
			}
		}
		e.specDone[key] = sig
		return sig
	}
	// symbolic heap: every array read becomes a formal named after the array
	symState := &State{heap: map[string]string{}, epoch: -1}
	env.st, env.old = symState, symState
	// recursion: provisional signature with unknown heaps; placeholder replaced afterwards
	prov := &specSig{name: sf.Name, params: sig.params, ret: sig.ret}
	e.specDone[key] = prov
	e.specHeapUse = append(e.specHeapUse, map[string]bool{})
	ctx := &specCtx{rowBases: map[string]string{}}
	for i, p := range sf.Params {
		if sl, ok := sig.params[i].T.Underlying().(*types.Slice); ok && !isAggregateElem(sl.Elem()) {
			ctx.rowBases[sig.params[i].L[0]] = p.Name
		}
	}
	e.specCtxs = append(e.specCtxs, ctx)
	body := func() Val {
		save := e.st
		e.st = symState
		nFacts := len(e.rangeFacts)
		defer func() { e.st = save; e.rangeFacts = e.rangeFacts[:nFacts] }()
		v := env.eval(sf.Body)
		return env.typed(v, sig.ret)
	}()
	used := e.specHeapUse[len(e.specHeapUse)-1]
	e.specHeapUse = e.specHeapUse[:len(e.specHeapUse)-1]
	e.specCtxs = e.specCtxs[:len(e.specCtxs)-1]
	sig.rows = ctx.rowUse
	for _, r := range sig.rows {
		formals = append(formals, "("+r.formal()+" "+r.sort+")")
	}
	sig.heaps = sortedKeys(used)
	for _, h := range sig.heaps {
		formals = append(formals, "("+quoteSym("hf:"+h)+" "+e.heapSort[h]+")")
		if n := len(e.specHeapUse); n > 0 {
			e.specHeapUse[n-1][h] = true
		}
	}
	bodyT := body.L[0]
	if sf.Rec {
		// recursive calls were emitted with the provisional (heap-less) argument list; append heap formals
		var hf []string
		for _, r := range sig.rows {
			hf = append(hf, r.formal())
		}
		for _, h := range sig.heaps {
			hf = append(hf, quoteSym("hf:"+h))
		}
		if len(hf) > 0 {
			bodyT = strings.ReplaceAll(bodyT, "("+quoteSym("sf_"+sf.Name)+" ", "("+quoteSym("sf_"+sf.Name)+" "+"\x00")
			bodyT = appendHeapArgs(bodyT, strings.Join(hf, " "))
		}
	}
	kw := "define-fun"
	if sf.Rec {
		kw = "define-fun-rec"
	}
	e.specDefs = append(e.specDefs, fmt.Sprintf("(%s %s (%s) %s %s)", kw, quoteSym("sf_"+sf.Name), strings.Join(formals, " "), rl[0].sort, bodyT))
	e.specDone[key] = sig
	return sig
}

// for every marked recursive call "(sf_x \x00args...)" append the heap formals before its closing paren
func appendHeapArgs(s, heaps string) string {
	for {
		i := strings.Index(s, "\x00")
		if i < 0 {
			return s
		}
		// find the closing paren matching the "(" before the function name
		start := strings.LastIndex(s[:i], "(")
		d := 0
		j := start
		inQuote := false
		for ; j < len(s); j++ {
			c := s[j]
			if c == '|' {
				inQuote = !inQuote
			}
			if inQuote {
				continue
			}
			if c == '(' {
				d++
			} else if c == ')' {
				d--
				if d == 0 {
					break
				}
			}
		}
		s = s[:i] + s[i+1:j] + " " + heaps + s[j:]
	}
}

// closedAtEntry: the heap a function starts in is closed — a reference stored in a field of an existing
// object is nil or an object that already exists. Recorded (like range facts) for field reads that a
// contract makes in the entry state; facts about terms with bound variables are dropped by the quantifier
// code. This is what separates objects reachable from the parameters from objects allocated by the function.
func (env *specEnv) closedAtEntry(v Val) Val {
	e := env.e
	if env.inSpec || env.st != e.st0 || v.T == nil || len(v.L) == 0 {
		return v
	}
	switch typeUnder(v.T).(type) {
	case *types.Pointer, *types.Slice, *types.Map, *types.Chan:
		e.rangeFacts = append(e.rangeFacts, sor(seq(v.L[0], "0"), "(select "+quoteSym("$alloc")+" "+v.L[0]+")"))
		if _, isSlice := typeUnder(v.T).(*types.Slice); isSlice && len(v.L) == 4 {
			// a slice with elements has a backing array
			e.rangeFacts = append(e.rangeFacts, sor(seq(v.L[2], e.idxConst(0)), snot(seq(v.L[0], "0"))))
		}
	}
	return v
}

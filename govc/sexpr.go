package main

// Contract expression language: Go expressions extended with old(), result0..n,
// forall/exists, ==>, <==>, c ? a : b.  Parsed by a small Pratt parser.

import (
	"fmt"
	"math/big"
	"strconv"
	"strings"
	"unicode"
)

type Expr interface{ String() string }

type (
	EIdent  struct{ Name string }
	EInt    struct{ V *big.Int }
	EBool   struct{ V bool }
	EStr    struct{ V string }
	EUnary  struct {
		Op string
		X  Expr
	}
	EBinary struct {
		Op   string
		X, Y Expr
	}
	ECond struct{ C, A, B Expr }
	ECall struct {
		Fun  string
		Args []Expr
	}
	EIndex struct{ X, I Expr }
	ESlice struct{ X, Lo, Hi Expr }
	ESel   struct {
		X Expr
		F string
	}
	EQuant struct {
		Forall bool
		Var    string
		Typ    string
		Body   Expr
		Trig   []Expr // optional instantiation patterns: `forall k int :: {f(k), g(k)} body`
	}
	EStar struct{ X Expr } // *p
)

func (e *EIdent) String() string  { return e.Name }
func (e *EInt) String() string    { return e.V.String() }
func (e *EBool) String() string   { return fmt.Sprint(e.V) }
func (e *EStr) String() string    { return strconv.Quote(e.V) }
func (e *EUnary) String() string  { return e.Op + e.X.String() }
func (e *EBinary) String() string { return "(" + e.X.String() + " " + e.Op + " " + e.Y.String() + ")" }
func (e *ECond) String() string {
	return "(" + e.C.String() + " ? " + e.A.String() + " : " + e.B.String() + ")"
}
func (e *ECall) String() string {
	var a []string
	for _, x := range e.Args {
		a = append(a, x.String())
	}
	return e.Fun + "(" + strings.Join(a, ", ") + ")"
}
func (e *EIndex) String() string { return e.X.String() + "[" + e.I.String() + "]" }
func (e *ESlice) String() string {
	lo, hi := "", ""
	if e.Lo != nil {
		lo = e.Lo.String()
	}
	if e.Hi != nil {
		hi = e.Hi.String()
	}
	return e.X.String() + "[" + lo + ":" + hi + "]"
}
func (e *ESel) String() string { return e.X.String() + "." + e.F }
func (e *EQuant) String() string {
	q := "exists"
	if e.Forall {
		q = "forall"
	}
	return "(" + q + " " + e.Var + " " + e.Typ + " :: " + e.Body.String() + ")"
}
func (e *EStar) String() string { return "*" + e.X.String() }

type lexTok struct {
	k string // "id","int","str","op","eof"
	s string
}

func lexExpr(src string) ([]lexTok, error) {
	var toks []lexTok
	i := 0
	ops := []string{"<==>", "==>", "&^", "<<", ">>", "&&", "||", "==", "!=", "<=", ">=", "::", ":=",
		"+", "-", "*", "/", "%", "&", "|", "^", "<", ">", "!", "(", ")", "[", "]", ",", ".", ":", "?", "{", "}"}
	for i < len(src) {
		c := src[i]
		if c == ' ' || c == '\t' || c == '\n' {
			i++
			continue
		}
		if unicode.IsLetter(rune(c)) || c == '_' {
			j := i
			for j < len(src) && (unicode.IsLetter(rune(src[j])) || unicode.IsDigit(rune(src[j])) || src[j] == '_') {
				j++
			}
			toks = append(toks, lexTok{"id", src[i:j]})
			i = j
			continue
		}
		if unicode.IsDigit(rune(c)) {
			j := i
			for j < len(src) && (unicode.IsLetter(rune(src[j])) || unicode.IsDigit(rune(src[j]))) {
				j++
			}
			toks = append(toks, lexTok{"int", src[i:j]})
			i = j
			continue
		}
		if c == '\'' {
			j := i + 1
			for j < len(src) && src[j] != '\'' {
				if src[j] == '\\' {
					j++
				}
				j++
			}
			if j >= len(src) {
				return nil, fmt.Errorf("unterminated char literal")
			}
			r, _, _, err := strconv.UnquoteChar(src[i+1:j], '\'')
			if err != nil {
				return nil, err
			}
			toks = append(toks, lexTok{"int", strconv.Itoa(int(r))})
			i = j + 1
			continue
		}
		if c == '"' {
			j := i + 1
			for j < len(src) && src[j] != '"' {
				if src[j] == '\\' {
					j++
				}
				j++
			}
			if j >= len(src) {
				return nil, fmt.Errorf("unterminated string literal")
			}
			s, err := strconv.Unquote(src[i : j+1])
			if err != nil {
				return nil, err
			}
			toks = append(toks, lexTok{"str", s})
			i = j + 1
			continue
		}
		matched := false
		for _, op := range ops {
			if strings.HasPrefix(src[i:], op) {
				toks = append(toks, lexTok{"op", op})
				i += len(op)
				matched = true
				break
			}
		}
		if !matched {
			return nil, fmt.Errorf("bad character %q in %q", c, src)
		}
	}
	toks = append(toks, lexTok{"eof", ""})
	return toks, nil
}

type exprParser struct {
	toks []lexTok
	p    int
}

func ParseExpr(src string) (e Expr, err error) {
	toks, err := lexExpr(src)
	if err != nil {
		return nil, err
	}
	ps := &exprParser{toks: toks}
	defer func() {
		if r := recover(); r != nil {
			err = fmt.Errorf("parse %q: %v", src, r)
		}
	}()
	e = ps.expr(0)
	if ps.peek().k != "eof" {
		panic(fmt.Sprintf("unexpected %q", ps.peek().s))
	}
	return e, nil
}

func (p *exprParser) peek() lexTok { return p.toks[p.p] }
func (p *exprParser) next() lexTok  { t := p.toks[p.p]; p.p++; return t }
func (p *exprParser) isOp(s string) bool {
	t := p.peek()
	return t.k == "op" && t.s == s
}
func (p *exprParser) expect(s string) {
	if !p.isOp(s) {
		panic(fmt.Sprintf("expected %q got %q", s, p.peek().s))
	}
	p.p++
}

// precedence: <==> 1, ==> 2 (right), ?: 3, || 4, && 5, cmp 6, + - | ^ 7, * / % << >> & &^ 8
var binPrec = map[string]int{
	"<==>": 1, "==>": 2, "||": 4, "&&": 5,
	"==": 6, "!=": 6, "<": 6, "<=": 6, ">": 6, ">=": 6,
	"+": 7, "-": 7, "|": 7, "^": 7,
	"*": 8, "/": 8, "%": 8, "<<": 8, ">>": 8, "&": 8, "&^": 8,
}

func (p *exprParser) expr(min int) Expr {
	lhs := p.unary()
	for {
		t := p.peek()
		if t.k != "op" {
			break
		}
		if t.s == "?" && min <= 3 {
			p.next()
			a := p.expr(3)
			p.expect(":")
			b := p.expr(3)
			lhs = &ECond{lhs, a, b}
			continue
		}
		pr, ok := binPrec[t.s]
		if !ok || pr < min {
			break
		}
		p.next()
		var rhs Expr
		if t.s == "==>" {
			rhs = p.expr(pr) // right assoc
		} else {
			rhs = p.expr(pr + 1)
		}
		lhs = &EBinary{t.s, lhs, rhs}
	}
	return lhs
}

func (p *exprParser) unary() Expr {
	t := p.peek()
	if t.k == "op" {
		switch t.s {
		case "!", "-", "^":
			p.next()
			return &EUnary{t.s, p.unary()}
		case "*":
			p.next()
			return &EStar{p.unary()}
		}
	}
	if t.k == "id" && (t.s == "forall" || t.s == "exists") {
		p.next()
		v := p.next()
		// type: [*]name[.name]
		tyS := ""
		ty := p.next()
		for ty.k == "op" && ty.s == "*" {
			tyS += "*"
			ty = p.next()
		}
		if v.k != "id" || ty.k != "id" {
			panic("quantifier: expected `forall v type :: body`")
		}
		tyS += ty.s
		for p.peek().k == "op" && p.peek().s == "." {
			p.next()
			n := p.next()
			if n.k != "id" {
				panic("quantifier: bad qualified type")
			}
			tyS += "." + n.s
		}
		ty.s = tyS
		p.expect("::")
		var trig []Expr
		if nx := p.peek(); nx.k == "op" && nx.s == "{" {
			p.next()
			for {
				trig = append(trig, p.expr(0))
				sep := p.next()
				if sep.k == "op" && sep.s == "}" {
					break
				}
				if !(sep.k == "op" && sep.s == ",") {
					panic("quantifier patterns: expected `,` or `}`")
				}
			}
		}
		body := p.expr(0)
		return &EQuant{t.s == "forall", v.s, ty.s, body, trig}
	}
	return p.postfix(p.primary())
}

func (p *exprParser) primary() Expr {
	t := p.next()
	switch t.k {
	case "int":
		v, ok := new(big.Int).SetString(t.s, 0)
		if !ok {
			panic("bad int " + t.s)
		}
		return &EInt{v}
	case "str":
		return &EStr{t.s}
	case "id":
		switch t.s {
		case "true":
			return &EBool{true}
		case "false":
			return &EBool{false}
		}
		return &EIdent{t.s}
	case "op":
		if t.s == "(" {
			e := p.expr(0)
			p.expect(")")
			return e
		}
	}
	panic(fmt.Sprintf("unexpected token %q", t.s))
}

func (p *exprParser) postfix(e Expr) Expr {
	for {
		switch {
		case p.isOp("("):
			p.next()
			var args []Expr
			for !p.isOp(")") {
				args = append(args, p.expr(0))
				if p.isOp(",") {
					p.next()
				}
			}
			p.expect(")")
			name := ""
			switch f := e.(type) {
			case *EIdent:
				name = f.Name
			case *ESel:
				name = f.X.String() + "." + f.F
			default:
				panic("call of non-identifier")
			}
			e = &ECall{name, args}
		case p.isOp("["):
			p.next()
			var lo, hi Expr
			if !p.isOp(":") {
				lo = p.expr(0)
			}
			if p.isOp(":") {
				p.next()
				if !p.isOp("]") {
					hi = p.expr(0)
				}
				p.expect("]")
				e = &ESlice{e, lo, hi}
			} else {
				p.expect("]")
				e = &EIndex{e, lo}
			}
		case p.isOp("."):
			p.next()
			f := p.next()
			if f.k != "id" {
				panic("expected field name")
			}
			e = &ESel{e, f.s}
		default:
			return e
		}
	}
}

// substitute identifiers (for let-macros)
func substExpr(e Expr, m map[string]Expr) Expr {
	if len(m) == 0 || e == nil {
		return e
	}
	switch x := e.(type) {
	case *EIdent:
		if r, ok := m[x.Name]; ok {
			return r
		}
		return x
	case *EUnary:
		return &EUnary{x.Op, substExpr(x.X, m)}
	case *EStar:
		return &EStar{substExpr(x.X, m)}
	case *EBinary:
		return &EBinary{x.Op, substExpr(x.X, m), substExpr(x.Y, m)}
	case *ECond:
		return &ECond{substExpr(x.C, m), substExpr(x.A, m), substExpr(x.B, m)}
	case *ECall:
		var a []Expr
		for _, y := range x.Args {
			a = append(a, substExpr(y, m))
		}
		return &ECall{x.Fun, a}
	case *EIndex:
		return &EIndex{substExpr(x.X, m), substExpr(x.I, m)}
	case *ESlice:
		return &ESlice{substExpr(x.X, m), substExpr(x.Lo, m), substExpr(x.Hi, m)}
	case *ESel:
		return &ESel{substExpr(x.X, m), x.F}
	case *EQuant:
		m2 := map[string]Expr{}
		for k, v := range m {
			if k != x.Var {
				m2[k] = v
			}
		}
		var tr []Expr
		for _, t := range x.Trig {
			tr = append(tr, substExpr(t, m2))
		}
		return &EQuant{x.Forall, x.Var, x.Typ, substExpr(x.Body, m2), tr}
	}
	return e
}

package main

// Go helper functions emitted into generated replay / witness-search tests.
const goHelpers = `func govcPtr(x interface{}) uintptr { v := reflect.ValueOf(x); if v.Kind() == reflect.Slice && v.Len() == 0 && v.Cap() == 0 { return 0 }; return v.Pointer() }
func govcDisjoint(a, b interface{}) bool {
	va, vb := reflect.ValueOf(a), reflect.ValueOf(b)
	if va.Cap() == 0 || vb.Cap() == 0 { return true }
	sz := uintptr(va.Type().Elem().Size())
	a0, b0 := va.Pointer(), vb.Pointer()
	a1, b1 := a0+uintptr(va.Cap())*sz, b0+uintptr(vb.Cap())*uintptr(vb.Type().Elem().Size())
	return a1 <= b0 || b1 <= a0
}
var _ = fmt.Sprint
var _ = govcPtr
var _ = govcDisjoint
`

func init() { _ = snapshotPtr }

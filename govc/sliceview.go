package main

import "strings"

// Slice element access with trigger-friendly, row-granular terms.
//   rowv_<sort>(row, off)[k] == row[off + k]        where row = (select E base)
// The relative index k is the direct array index of the term, so quantified contract clauses over
// "s[k]" are instantiated by E-matching against every concrete access "s[i]" of the code (no arithmetic
// inside the pattern); and a term only depends on the row of its own backing array, so writes to other
// arrays of the same element type leave it (and spec functions applied to it) syntactically intact.

func (e *FnEnc) isZeroIdx(s string) bool { return s == e.idxConst(0) || s == "0" }

func (e *FnEnc) rowRead(row, innerSort, off, rel string) string {
	if off == "" || e.isZeroIdx(off) {
		return "(select " + row + " " + rel + ")"
	}
	tag := strings.NewReplacer("(", "", ")", "", " ", "_").Replace(innerSort)
	name := "rowv_" + tag
	ix := e.sorter.idxSort()
	f := e.uf(name, []string{innerSort, ix}, innerSort)
	if !e.ufs[name+"_ax"] {
		e.ufs[name+"_ax"] = true
		e.specDefs = append(e.specDefs, "(assert (forall ((a "+innerSort+") (o "+ix+") (k "+ix+")) (! (= (select ("+f+" a o) k) (select a "+e.idxAdd("o", "k")+")) :pattern ((select ("+f+" a o) k)))))")
	}
	return "(select (" + f + " " + row + " " + off + ") " + rel + ")"
}

// read element rel of the row `base` starting at off; arrSort = (Array Int (Array idx leaf))
func (e *FnEnc) elemRead(arr, arrSort, base, off, rel string) string {
	inner := arrSort[len("(Array Int ") : len(arrSort)-1]
	return e.rowRead("(select "+arr+" "+base+")", inner, off, rel)
}

// eaddrRel(base, off, rel) == eaddr(base, off+rel), with rel as a direct argument
func (e *FnEnc) eaddrRel(base, off, rel string) string {
	if off == "" || e.isZeroIdx(off) {
		return e.eaddr(base, rel)
	}
	e.eaddr(base, e.idxConst(0))
	ix := e.sorter.idxSort()
	f := e.uf("eaddr3", []string{"Int", ix, ix}, "Int")
	if !e.ufs["eaddr3_ax"] {
		e.ufs["eaddr3_ax"] = true
		e.specDefs = append(e.specDefs, "(assert (forall ((b Int) (o "+ix+") (k "+ix+")) (! (= ("+f+" b o k) (eaddr b "+e.idxAdd("o", "k")+")) :pattern (("+f+" b o k)))))")
	}
	return "(" + f + " " + base + " " + off + " " + rel + ")"
}

// ---- row formals of spec functions ----

type specRow struct {
	param string // parameter name
	arr   string // element heap array name
	sort  string // row sort (Array idx leaf)
}

type specCtx struct {
	rowBases map[string]string // base formal symbol -> parameter name
	rowUse   []specRow
}

func (r specRow) formal() string { return quoteSym("hr:" + r.param + ":" + r.arr) }

// inside a spec function body: a read of element array `arr` through the base formal of a slice
// parameter goes through that parameter's row formal
func (e *FnEnc) specRowFor(ref, arr, rowSort string) (string, bool) {
	if len(e.specCtxs) == 0 {
		return "", false
	}
	ctx := e.specCtxs[len(e.specCtxs)-1]
	p, ok := ctx.rowBases[ref]
	if !ok {
		return "", false
	}
	r := specRow{p, arr, rowSort}
	for _, u := range ctx.rowUse {
		if u.param == p && u.arr == arr {
			return u.formal(), true
		}
	}
	ctx.rowUse = append(ctx.rowUse, r)
	return r.formal(), true
}

package main

import (
	"encoding/json"
	"flag"
	"fmt"
	"os"
	"path/filepath"
	"sort"
	"strconv"
	"strings"
	"sync"
	"time"
)

var verifDir = "/verif"

func main() {
	if len(os.Args) < 2 {
		fmt.Fprintln(os.Stderr, "usage: govc check|loops|dump ...")
		os.Exit(2)
	}
	if exe, err := os.Executable(); err == nil {
		verifDir = filepath.Dir(filepath.Dir(filepath.Dir(exe)))
	}
	switch os.Args[1] {
	case "check":
		os.Exit(cmdCheck(os.Args[2:]))
	case "leanwarm":
		// setup step: run Lean once on every file of lean/index.json (loads Mathlib: minutes on a cold cache) so
		// that the quick checks find the acceptance stamp of the unchanged file; a changed file is always re-run
		b, _ := os.ReadFile(filepath.Join(verifDir, "lean", "index.json"))
		var all []leanEntry
		json.Unmarshal(b, &all)
		rc := 0
		for _, le := range all {
			obls, _ := leanObligations(le.Prop, "quick", &Program{contracts: map[string]*FuncContract{}})
			for _, o := range obls {
				if o.Kind == "lean" {
					fmt.Printf("  [%s] %s\n", o.Status, o.Name)
					if o.Status != "proved" {
						rc = 1
					}
				}
			}
		}
		os.Exit(rc)
	case "replay":
		if len(os.Args) < 4 {
			fmt.Fprintln(os.Stderr, "usage: govc replay <pkgpath> <testfile>")
			os.Exit(2)
		}
		out, failed := runReplayTest(os.Args[2], os.Args[3])
		fmt.Println(out)
		if failed {
			os.Exit(1)
		}
		os.Exit(0)
	case "loops":
		os.Exit(cmdLoops(os.Args[2:]))
	default:
		fmt.Fprintln(os.Stderr, "unknown command")
		os.Exit(2)
	}
}

func coverCount(e *FnEnc) int {
	if e.coverAsserts > 0 && e.coverAsserts <= len(e.asserts) {
		return e.coverAsserts
	}
	return len(e.asserts)
}

func hasProp(ps []string, p string) bool {
	for _, x := range ps {
		if x == p {
			return true
		}
	}
	return false
}

type finding struct {
	kind, prop, obligation, text string
}

func loadFindings() []finding {
	b, err := os.ReadFile(filepath.Join(verifDir, "known_findings.txt"))
	if err != nil {
		return nil
	}
	var out []finding
	for _, ln := range strings.Split(string(b), "\n") {
		ln = strings.TrimSpace(ln)
		if ln == "" || strings.HasPrefix(ln, "#") {
			continue
		}
		var f finding
		switch {
		case strings.HasPrefix(ln, "finding:"):
			f.kind = "finding"
			rest := strings.TrimSpace(ln[len("finding:"):])
			parts := strings.SplitN(rest, " :: ", 2)
			if len(parts) == 2 {
				f.text = parts[1]
			}
			head := parts[0]
			if i := strings.Index(head, "obligation="); i >= 0 {
				f.obligation = strings.TrimSpace(head[i+len("obligation="):])
				head = head[:i]
			}
			for _, w := range strings.Fields(head) {
				if strings.HasPrefix(w, "property=") {
					f.prop = w[len("property="):]
				}
			}
		case strings.HasPrefix(ln, "fixed:"):
			f.kind = "fixed"
			f.text = ln
		}
		out = append(out, f)
	}
	return out
}

func cmdLoops(args []string) int {
	fs := flag.NewFlagSet("loops", flag.ExitOnError)
	fs.Parse(args)
	if fs.NArg() < 2 {
		fmt.Fprintln(os.Stderr, "usage: govc loops <pkgpath-suffix> <func key>")
		return 2
	}
	prog, err := loadContracts()
	if err != nil {
		fmt.Fprintln(os.Stderr, err)
		return 2
	}
	pp := repoMod + "/" + fs.Arg(0)
	if err := prog.load([]string{pp}); err != nil {
		fmt.Fprintln(os.Stderr, err)
		return 2
	}
	fn, err := prog.findFunc(pp, fs.Arg(1))
	if err != nil {
		fmt.Fprintln(os.Stderr, err)
		return 2
	}
	e := newFnEnc(prog, fn, &FuncContract{Key: fs.Arg(1), PkgPath: pp, Loops: map[int]*LoopSpec{}, Opaque: map[string]string{}})
	e.reset()
	e.findLoops()
	type row struct {
		ord  int
		desc string
	}
	var rows []row
	for h, li := range e.loops {
		var phis []string
		for _, in := range h.Instrs {
			if s := in.String(); strings.HasPrefix(s, "phi") {
				phis = append(phis, in.(interface{ Name() string }).Name()+"="+s)
			}
		}
		pos := prog.fset.Position(tokenPos(e.loopPos(h)))
		rows = append(rows, row{li.ordinal, fmt.Sprintf("loop %d: header block %d (%s) near %s:%d  phis: %s", li.ordinal, h.Index, h.Comment, filepath.Base(pos.Filename), pos.Line, strings.Join(phis, "; "))})
	}
	sort.Slice(rows, func(i, j int) bool { return rows[i].ord < rows[j].ord })
	for _, r := range rows {
		fmt.Println(r.desc)
	}
	if len(fs.Args()) > 2 && fs.Arg(2) == "ssa" {
		fn.WriteTo(os.Stdout)
	}
	return 0
}

type evidence struct {
	PropertyID  string                 `json:"property_id"`
	Tier        string                 `json:"tier"`
	Seed        int                    `json:"seed"`
	Level       string                 `json:"level"`
	Coverage    map[string]interface{} `json:"coverage"`
	Assumptions []string               `json:"assumptions"`
	WallS       float64                `json:"wall_s"`
	Violations  int                    `json:"violations"`
}

func cmdCheck(args []string) int {
	fs := flag.NewFlagSet("check", flag.ExitOnError)
	prop := fs.String("prop", "", "property id")
	tier := fs.String("tier", "quick", "quick|thorough")
	keep := fs.Bool("keep", false, "keep SMT files")
	only := fs.String("only", "", "only obligations whose name contains this")
	verbose := fs.Bool("v", false, "verbose")
	noEvidence := fs.Bool("no-evidence", false, "do not write evidence (development)")
	fs.Parse(args)
	if t := os.Getenv("VERIF_TIER"); t != "" && (t == "quick" || t == "thorough") {
		*tier = t
	}
	seed := 0
	if s := os.Getenv("VERIF_SEED"); s != "" {
		seed, _ = strconv.Atoi(s)
	}
	t0 := time.Now()
	prog, err := loadContracts()
	if err != nil {
		fmt.Fprintln(os.Stderr, "contract error:", err)
		return 2
	}
	// select contracts
	var sel []*FuncContract
	pkgSet := map[string]bool{}
	for _, k := range sortedKeys(prog.contracts) {
		c := prog.contracts[k]
		if hasProp(c.Props, *prop) && !c.Trusted {
			sel = append(sel, c)
			pkgSet[c.PkgPath] = true
		}
	}
	var lemmas []*Lemma
	for _, l := range prog.lemmas {
		if hasProp(l.Props, *prop) {
			lemmas = append(lemmas, l)
			if l.PkgPath != "" {
				pkgSet[l.PkgPath] = true
			}
		}
	}
	if len(sel) == 0 && len(lemmas) == 0 {
		fmt.Fprintf(os.Stderr, "no contracts carry property %s\n", *prop)
		return 2
	}
	if err := prog.load(sortedKeys(pkgSet)); err != nil {
		fmt.Fprintln(os.Stderr, "load error:", err)
		return 2
	}
	loadS := time.Since(t0).Seconds()
	var obls []*Obligation
	var covers []*Obligation
	assumptions := map[string]bool{}
	var funcs []string
	engineErr := 0
	for _, c := range sel {
		fn, err := prog.findFunc(c.PkgPath, c.Key)
		if err != nil {
			fmt.Fprintf(os.Stderr, "ERROR: contract target missing: %v (%s:%d)\n", err, c.File, c.Line)
			engineErr++
			continue
		}
		e := newFnEnc(prog, fn, c)
		if err := e.Encode(); err != nil {
			fmt.Fprintf(os.Stderr, "ERROR: %v\n", err)
			engineErr++
			continue
		}
		funcs = append(funcs, e.key)
		for a := range e.assumptions {
			assumptions[a] = true
		}
		for _, n := range c.Notes {
			assumptions[e.key+": "+n] = true
		}
		obls = append(obls, e.obls...)
		// vacuity guard: the exit is reachable under requires + all assumptions
		if len(e.rets) > 0 {
			covers = append(covers, &Obligation{Name: e.key + "#cover[exit reachable]", Kind: "cover", Fn: e.key, nAsserts: coverCount(e), Guard: "bb_exit", Cover: true, enc: e})
			if coverCount(e) != len(e.asserts) {
				// a second cover with the postconditions assumed: only meaningful (and only counted) when every
				// obligation of the function was discharged - then they are consequences, and an unreachable exit
				// means the assumptions or the background axioms are inconsistent
				covers = append(covers, &Obligation{Name: e.key + "#cover[exit reachable, postconditions assumed]", Kind: "cover", Fn: e.key, nAsserts: len(e.asserts), Guard: "bb_exit", Cover: true, enc: e})
			}
		}
	}
	for _, l := range lemmas {
		os2, err := encodeLemma(prog, l)
		if err != nil {
			fmt.Fprintf(os.Stderr, "ERROR: lemma %s: %v\n", l.Name, err)
			engineErr++
			continue
		}
		funcs = append(funcs, "lemma "+l.Name)
		obls = append(obls, os2...)
	}
	obls = append(obls, prog.checkImmutable()...)
	for _, a := range prog.immAssumed {
		assumptions[a] = true
	}
	{
		po, perrs := prog.checkPkgInvariants()
		for _, pe := range perrs {
			fmt.Fprintln(os.Stderr, "ERROR:", pe)
			engineErr++
		}
		for _, o := range po {
			o.Props = []string{*prop}
		}
		obls = append(obls, po...)
	}
	if *only != "" {
		var f []*Obligation
		for _, o := range obls {
			if strings.Contains(o.Name, *only) {
				f = append(f, o)
			}
		}
		obls = f
	}
	if engineErr > 0 {
		fmt.Fprintf(os.Stderr, "%d engine/contract errors: the check could not run\n", engineErr)
		return 2
	}
	if len(obls) == 0 {
		fmt.Fprintln(os.Stderr, "vacuity: zero obligations generated")
		return 2
	}
	dir, _ := os.MkdirTemp("", "govc-"+*prop+"-")
	if !*keep {
		defer os.RemoveAll(dir)
	} else {
		fmt.Fprintln(os.Stderr, "SMT files in", dir)
	}
	timeout := 15 * time.Second
	if *tier == "thorough" {
		timeout = 120 * time.Second
	}
	r := &runner{dir: dir, timeout: timeout, seed: seed, thorough: *tier == "thorough"}
	all := append(append([]*Obligation{}, obls...), covers...)
	var wg sync.WaitGroup
	sem := make(chan struct{}, 6)
	for _, o := range all {
		o := o
		if o.Backend == "syntactic-scan" {
			continue
		}
		wg.Add(1)
		sem <- struct{}{}
		go func() {
			defer wg.Done()
			defer func() { <-sem }()
			r.discharge(o)
		}()
	}
	wg.Wait()
	// inductive lemmas proved in Lean over the contract's transition relation
	if *only == "" || strings.HasPrefix(*only, "lean") {
		lo, la := leanObligations(*prop, *tier, prog)
		obls = append(obls, lo...)
		for _, a := range la {
			assumptions[a] = true
		}
	}

	// report
	findings := loadFindings()
	known := map[string]finding{}
	for _, f := range findings {
		if f.kind == "finding" && f.prop == *prop {
			known[f.obligation] = f
		}
	}
	// replays of failed obligations, in parallel
	replayPath := map[*Obligation]string{}
	{
		var rwg sync.WaitGroup
		var rmu sync.Mutex
		rsem := make(chan struct{}, 8)
		for _, o := range obls {
			if o.Status == "proved" {
				continue
			}
			if _, isKnown := known[o.Name]; isKnown {
				continue
			}
			o := o
			rwg.Add(1)
			rsem <- struct{}{}
			go func() {
				defer rwg.Done()
				defer func() { <-rsem }()
				p := writeReplay(*prop, o, prog)
				rmu.Lock()
				replayPath[o] = p
				rmu.Unlock()
			}()
		}
		rwg.Wait()
	}
	discharged, violations, vacuous := 0, 0, 0
	byBackend := map[string]int{}
	solverSecs := 0.0
	var samples []interface{}
	var knownList []string
	counted := 0
	for _, o := range obls {
		solverSecs += o.Secs
		if *verbose || o.Status != "proved" {
			fmt.Printf("  [%s] %s (%s %.2fs)\n", o.Status, o.Name, o.Backend, o.Secs)
			if *keep {
				fmt.Printf("      query: %s\n", o.file)
				for _, s := range o.subs {
					fmt.Printf("      sub %s [%s]: %s\n", s.Name, s.Status, s.file)
				}
			}
		}
		if f, ok := known[o.Name]; ok {
			if o.Status != "proved" {
				fmt.Printf("KNOWN-FINDING: property=%s %s [obligation %s]\n", *prop, f.text, o.Name)
				knownList = append(knownList, o.Name)
				continue
			}
			fmt.Fprintf(os.Stderr, "note: known finding %s now discharges; remove it from known_findings.txt\n", o.Name)
		}
		counted++
		if o.Status == "proved" {
			discharged++
			byBackend[o.Backend]++
			if len(samples) < 6 {
				samples = append(samples, map[string]interface{}{"obligation": o.Name, "backend": o.Backend, "secs": o.Secs, "smt_bytes": len(o.query(false))})
			}
			continue
		}
		if o.Status == "error" {
			fmt.Fprintf(os.Stderr, "ENGINE ERROR: malformed query for %s:\n%s\n", o.Name, trimOutN(o.Output, 600))
			vacuous++ // forces exit 2
			continue
		}
		violations++
		path := replayPath[o]
		suffix := ""
		if !o.replayed {
			suffix = " no-failing-input-found"
		}
		fmt.Printf("VIOLATION property=%s replay=%s%s\n", *prop, path, suffix)
	}
	// bounded stand-ins registered for this property (never counted among the discharged obligations)
	var boundedEv []interface{}
	if *only == "" || strings.HasPrefix(*only, "bounded") {
		for _, bs := range loadBounded(*prop) {
			br := runBounded(bs, *tier, int64(seed))
			if br.Err != "" {
				// build-cache contention or a loaded machine: one retry before calling it an engine error
				br = runBounded(bs, *tier, int64(seed))
			}
			solverSecs += 0
			item := map[string]interface{}{"label": "bounded", "name": bs.Name, "stands_for": bs.StandsFor, "bound": br.Bound, "cases": br.Cases, "distinct_nontrivial": br.Distinct, "samples": br.Samples, "secs": br.Secs, "test": bs.Test, "harness": "bounded/" + bs.File, "role": bs.Role}
			if br.Err != "" {
				fmt.Fprintf(os.Stderr, "ENGINE ERROR: bounded stand-in %s: %s\n", bs.Name, br.Err)
				vacuous++
				item["error"] = "harness did not complete"
				boundedEv = append(boundedEv, item)
				continue
			}
			nfail := 0
			for _, f := range br.Fails {
				name := "bounded:" + bs.Name + "#" + f.ID
				if kf, ok := known[name]; ok {
					fmt.Printf("KNOWN-FINDING: property=%s %s [%s]\n", *prop, kf.text, name)
					knownList = append(knownList, name)
					continue
				}
				nfail++
				if nfail > 5 {
					continue
				}
				violations++
				fmt.Printf("  [failed] %s (bounded run on the real code)\n", name)
				fmt.Printf("VIOLATION property=%s replay=%s\n", *prop, writeBoundedReplay(*prop, br, f))
			}
			item["failures"] = nfail
			boundedEv = append(boundedEv, item)
			fmt.Printf("  bounded stand-in %s: %d cases (%d distinct non-trivial), %d failing, %.1fs; bound: %s\n", bs.Name, br.Cases, br.Distinct, nfail, br.Secs, br.Bound)
		}
	}
	coverSat, coverUndecided := 0, 0
	undischarged := map[string]bool{}
	for _, o := range obls {
		if o.Status != "proved" {
			undischarged[o.Fn] = true
		}
	}
	for _, o := range covers {
		switch o.Status {
		case "proved":
			coverSat++
		case "failed":
			if strings.Contains(o.Name, "postconditions assumed") && undischarged[o.Fn] {
				coverUndecided++ // a failed postcondition of this function is already reported; assuming it proves nothing
				continue
			}
			vacuous++
			fmt.Fprintf(os.Stderr, "VACUITY: %s: %s\n", o.Name, o.Output)
		default:
			coverUndecided++
		}
	}
	var as []string
	for a := range assumptions {
		as = append(as, a)
	}
	sort.Strings(as)
	for _, b := range boundedEv {
		m := b.(map[string]interface{})
		if m["role"] == "cross-check" {
			continue
		}
		as = append(as, fmt.Sprintf("BOUNDED, not proved: %v — checked by exhaustive runs of the real code only within: %v", m["stands_for"], m["bound"]))
	}
	as = append(as, "trusted base: go/parser, go/types, x/tools go/ssa builder, govc instruction semantics and VC generator, SMT solvers (z3 4.8.12, z3 5.1.0, cvc5 1.0.3)",
		"sequential semantics: no interleaving of other goroutines during a call",
		"panics end a path (partial correctness) unless the function is marked nopanic")
	ev := evidence{PropertyID: *prop, Tier: *tier, Seed: seed, Level: "proof", Assumptions: as, WallS: time.Since(t0).Seconds(), Violations: violations}
	ev.Coverage = map[string]interface{}{
		"obligations":              counted,
		"discharged":               discharged,
		"checker_cmd":              "govc check -prop " + *prop + " -tier " + *tier,
		"trusted_base":             []string{"go/types", "golang.org/x/tools/go/ssa v0.29.0", "govc VC generator", "z3 4.8.12", "z3 5.1.0", "cvc5 1.0.3"},
		"functions_under_contract": funcs,
		"by_backend":               byBackend,
		"solver_seconds":           solverSecs,
		"load_seconds":             loadS,
		"samples":                  samples,
		"known_findings":           knownList,
		"bounded_standins":         boundedEv,
		"vacuity":                  map[string]int{"exit_covers_sat": coverSat, "exit_covers_undecided": coverUndecided, "vacuous": vacuous},
	}
	deciding := 0
	for _, b := range boundedEv {
		if b.(map[string]interface{})["role"] != "cross-check" {
			deciding++
		}
	}
	if deciding > 0 {
		// part of the deciding argument is a bounded run: the property is claimed at the exploration level
		ev.Level = "exploration"
		evals, dist := 0, 0
		for _, b := range boundedEv {
			m := b.(map[string]interface{})
			evals += m["cases"].(int)
			dist += m["distinct_nontrivial"].(int)
			if ss, ok := m["samples"].([]string); ok {
				for _, x := range ss {
					samples = append(samples, map[string]interface{}{"bounded_case": x})
				}
			}
		}
		ev.Coverage["evaluations"] = evals
		ev.Coverage["distinct_nontrivial"] = dist
		ev.Coverage["samples"] = samples
		ev.Coverage["rule"] = "level is exploration because part of the argument is a BOUNDED exhaustive run of the real code (bounded_standins: cases enumerated as stated in each bound; distinct_nontrivial as counted by the harness); the contract obligations (obligations/discharged) are proved for all inputs and are reported alongside"
		ev.Coverage["exhaustive"] = true
	}
	if !*noEvidence {
		os.MkdirAll(filepath.Join(verifDir, "evidence"), 0o755)
		b, _ := json.MarshalIndent(ev, "", " ")
		os.WriteFile(filepath.Join(verifDir, "evidence", *prop+".json"), b, 0o644)
	}
	fmt.Printf("%s: %d obligations, %d discharged, %d violations, %d known findings, %d functions, %.1fs (load %.1fs, solvers %.1fs)\n",
		*prop, counted, discharged, violations, len(knownList), len(funcs), time.Since(t0).Seconds(), loadS, solverSecs)
	if vacuous > 0 {
		return 2
	}
	if violations > 0 {
		return 1
	}
	return 0
}

func writeReplay(prop string, o *Obligation, prog *Program) string {
	dir := filepath.Join(verifDir, "replay", prop)
	os.MkdirAll(dir, 0o755)
	name := sanitizeFile(o.Name)
	path := filepath.Join(dir, name+".txt")
	var b strings.Builder
	fmt.Fprintf(&b, "property: %s\nobligation: %s\nfunction: %s\nkind: %s\nsource: %s\nstatus: %s\n\n", prop, o.Name, o.Fn, o.Kind, o.Pos, o.Status)
	if len(o.Model) > 0 {
		b.WriteString("model (inputs):\n")
		for _, k := range sortedKeys(o.Model) {
			if strings.HasPrefix(k, "p_") || strings.HasPrefix(k, "result") {
				fmt.Fprintf(&b, "  %s = %s\n", k, o.Model[k])
			}
		}
		b.WriteString("\n")
	}
	if o.enc != nil {
		tryReplay(o, prog, &b)
	}
	b.WriteString("\nsolver output:\n")
	b.WriteString(trimOutN(o.Output, 20000))
	os.WriteFile(path, []byte(b.String()), 0o644)
	return path
}

func trimOutN(s string, n int) string {
	if len(s) > n {
		return s[:n] + "\n…(truncated)"
	}
	return s
}

func sanitizeFile(s string) string {
	var b strings.Builder
	for _, c := range s {
		switch {
		case c >= 'a' && c <= 'z', c >= 'A' && c <= 'Z', c >= '0' && c <= '9', c == '.', c == '-', c == '_':
			b.WriteRune(c)
		default:
			b.WriteByte('_')
		}
	}
	r := b.String()
	if len(r) > 150 {
		r = r[:150]
	}
	return r
}

package main

// Closures under contract.
//
// A function literal F (key "<parent>$N") may carry a contract like any function; its captured variables are
// named in the contract as in the source (they denote the current content of the captured cell).
// A function VALUE is an Int; `apply(f, args...)` in a contract denotes the result of calling the pure
// function value f. When a call passes a closure `make closure F [bindings]` whose contract says
// `modifies nothing`, the caller learns, for the heap at the call:
//     forall args. requires_F(args) ==> ensures_F(args)[result0 := apply(closure, args)]
// i.e. the closure's (separately proved) contract, instantiated for the apply term.

import (
	"fmt"
	"go/types"
	"strings"

	"golang.org/x/tools/go/ssa"
)

func (e *FnEnc) applyTerm(f Val, args []Val, env *specEnv) Val {
	sig, ok := typeUnder(f.T).(*types.Signature)
	if !ok || sig.Results().Len() != 1 || len(args) != sig.Params().Len() {
		sfail("apply(f, args...): f must be a function value with one result and matching arguments")
	}
	rt := sig.Results().At(0).Type()
	rl := e.sorter.leaves(rt)
	if len(rl) != 1 {
		sfail("apply: result must be scalar")
	}
	sorts := []string{"Int"}
	terms := []string{f.L[0]}
	for i, a := range args {
		pt := sig.Params().At(i).Type()
		a = env.typed(a, pt)
		pl := e.sorter.leaves(pt)
		if len(pl) != len(a.L) {
			sfail("apply: argument %d has the wrong shape", i)
		}
		for j, l := range pl {
			sorts = append(sorts, l.sort)
			terms = append(terms, a.L[j])
		}
	}
	name := "fnapp:"
	for i := 0; i < sig.Params().Len(); i++ {
		name += typeName(sig.Params().At(i).Type()) + ","
	}
	name += "->" + typeName(rt)
	fn := e.uf(name, sorts, rl[0].sort)
	return Val{T: rt, L: []string{"(" + fn + " " + strings.Join(terms, " ") + ")"}}
}

func pureContract(c *FuncContract) bool {
	return c != nil && c.HasMod && len(c.Modifies) == 0
}

// closureAxiom: called at a call site for each argument that is a closure created in this function.
func (e *FnEnc) closureAxiom(mc *ssa.MakeClosure) {
	fn, ok := mc.Fn.(*ssa.Function)
	if !ok {
		return
	}
	pkgPath, key := fnKeyOf(fn)
	c := e.prog.contract(pkgPath, key)
	if !pureContract(c) {
		return
	}
	sig := fn.Signature
	if sig.Results().Len() != 1 || len(e.sorter.leaves(sig.Results().At(0).Type())) != 1 {
		return
	}
	cv := e.val(mc)
	cv.T = mc.Type()
	st := e.st.clone()
	env := &specEnv{e: e, vars: map[string]Val{}, st: st, old: st, fvs: map[string]Val{}}
	if fn.Pkg != nil {
		env.pkg = fn.Pkg.Pkg
	}
	for i, fv := range fn.FreeVars {
		env.fvs[fv.Name()] = e.val(mc.Bindings[i])
	}
	var binders, rngs []string
	var args []Val
	for i := 0; i < sig.Params().Len(); i++ {
		p := sig.Params().At(i)
		ls := e.sorter.leaves(p.Type())
		v := Val{T: p.Type()}
		for _, l := range ls {
			e.nfresh++
			vn := quoteSym(fmt.Sprintf("%s%s!c%d", p.Name(), l.suffix, e.nfresh))
			binders = append(binders, "("+vn+" "+l.sort+")")
			v.L = append(v.L, vn)
			if r := e.sorter.rangeOf(vn, l.t); r != "" && l.sort != "Bool" {
				rngs = append(rngs, r)
			}
		}
		env.vars[p.Name()] = v
		args = append(args, v)
	}
	if len(binders) == 0 {
		return
	}
	nFacts := len(e.rangeFacts)
	defer func() {
		e.rangeFacts = e.rangeFacts[:nFacts]
		if r := recover(); r != nil {
			if se, ok := r.(specErr); ok {
				panic(unsupported{fmt.Sprintf("contract of closure %s: %s", key, se.msg)})
			}
			panic(r)
		}
	}()
	app := e.applyTerm(cv, args, env)
	env.results = []Val{app}
	if n := sig.Results().At(0).Name(); n != "" && n != "_" {
		env.vars[n] = app
	}
	hyps := append([]string{}, rngs...)
	for _, r := range c.Requires {
		hyps = append(hyps, env.eval(r.E).L[0])
	}
	var concl []string
	for _, en := range c.Ensures {
		concl = append(concl, env.eval(en.E).L[0])
	}
	if len(concl) == 0 {
		return
	}
	ax := fmt.Sprintf("(forall (%s) (! (=> %s %s) :pattern (%s)))", strings.Join(binders, " "), sand(hyps...), sand(concl...), app.L[0])
	e.assume(ax)
	e.note("closure " + key + ": its contract (proved separately when the closure is listed under the property) is used for apply() at the call that receives it")
}

// anonymous functions: key "<parent key>$N"
func anonKey(fn *ssa.Function) (string, string, bool) {
	if fn.Parent() == nil {
		return "", "", false
	}
	pp, pk := fnKeyOf(fn.Parent())
	// fn.Name() is "<parentName>$N"
	i := strings.LastIndex(fn.Name(), "$")
	if i < 0 {
		return "", "", false
	}
	return pp, pk + fn.Name()[i:], true
}

func findAnon(parent *ssa.Function, suffix string) *ssa.Function {
	for _, a := range parent.AnonFuncs {
		if strings.HasSuffix(a.Name(), suffix) && a.Name() == parent.Name()+suffix {
			return a
		}
	}
	return nil
}

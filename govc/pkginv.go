package main

// Package invariants: `//@ package_invariant[label] expr` over package-level variables.
//  (1) proved as a postcondition of the package's synthetic init function,
//  (2) the variables it mentions are checked (syntactic scan) to be assigned only in init,
//  (3) assumed at the entry of every function of the package and kept across heap-havocking calls.

import (
	"fmt"
	"go/types"
	"strings"

	"golang.org/x/tools/go/ssa"
	"golang.org/x/tools/go/ssa/ssautil"
)

func (p *Program) pkgInvGlobals(pkgPath string) []*types.Var {
	pk := p.typesPkg(pkgPath)
	if pk == nil {
		return nil
	}
	seen := map[string]bool{}
	var out []*types.Var
	for _, c := range p.pkgInvs[pkgPath] {
		walkExpr(c.E, func(x Expr) {
			if id, ok := x.(*EIdent); ok && !seen[id.Name] {
				if v, ok := pk.Scope().Lookup(id.Name).(*types.Var); ok {
					seen[id.Name] = true
					out = append(out, v)
				}
			}
		})
	}
	return out
}

// heap arrays of the invariant's globals in all loaded packages
func (p *Program) invariantGlobalArrays(s sorter) []namedSort {
	var out []namedSort
	for _, pp := range sortedKeys(p.pkgInvs) {
		for _, v := range p.pkgInvGlobals(pp) {
			if isAggregateElem(v.Type()) {
				continue
			}
			for _, l := range s.leaves(v.Type()) {
				out = append(out, namedSort{"G/" + v.Pkg().Name() + "." + v.Name() + "/" + l.suffix, l.sort})
			}
		}
	}
	return out
}

func (p *Program) checkPkgInvariants() (obls []*Obligation, errs []string) {
	for _, pp := range sortedKeys(p.pkgInvs) {
		sp := p.ssaPkgs[pp]
		if sp == nil || p.typesPkg(pp) == nil || !p.roots[pp] {
			continue // only a dependency (types from export data): not under analysis in this run
		}
		invs := p.pkgInvs[pp]
		// (1) init establishes the invariants
		initFn := sp.Func("init")
		if initFn == nil || len(initFn.Blocks) == 0 {
			errs = append(errs, pp+": no init function to establish package invariants")
			continue
		}
		c := &FuncContract{Key: "init", PkgPath: pp, Loops: map[int]*LoopSpec{}, Opaque: map[string]string{}, Arith: "int"}
		propSet := map[string]bool{}
		for _, inv := range invs {
			c.Ensures = append(c.Ensures, &Clause{Kind: "ensures", Label: "package_invariant " + inv.Label, Src: inv.Src, E: inv.E, File: inv.File, Line: inv.Line})
		}
		_ = propSet
		e := newFnEnc(p, initFn, c)
		e.skipPkgInv = true
		if err := e.Encode(); err != nil {
			errs = append(errs, err.Error())
			continue
		}
		obls = append(obls, e.obls...)
		// (2) globals assigned only in init
		globals := map[*types.Var]bool{}
		for _, v := range p.pkgInvGlobals(pp) {
			globals[v] = true
		}
		viol := map[string][]string{}
		for fn := range ssautil.AllFunctions(p.ssaProg) {
			if fn.Pkg == nil || !p.isRepoPkg(fn.Pkg.Pkg.Path()) || len(fn.Blocks) == 0 || fn == initFn {
				continue
			}
			for _, b := range fn.Blocks {
				for _, in := range b.Instrs {
					st, ok := in.(*ssa.Store)
					if !ok {
						continue
					}
					g, ok := st.Addr.(*ssa.Global)
					if !ok {
						continue
					}
					if v, ok := g.Object().(*types.Var); ok && globals[v] {
						pos := p.fset.Position(st.Pos())
						viol[v.Name()] = append(viol[v.Name()], fmt.Sprintf("%s assigns %s at %s:%d", fn, v.Name(), pos.Filename, pos.Line))
					}
				}
			}
		}
		for _, v := range p.pkgInvGlobals(pp) {
			o := &Obligation{Name: fmt.Sprintf("%s#init-only-global[%s]", pkgBase(pp), v.Name()), Kind: "immutable", Backend: "syntactic-scan", Status: "proved"}
			if len(viol[v.Name()]) > 0 {
				o.Status = "failed"
				o.Output = strings.Join(viol[v.Name()], "\n")
			}
			obls = append(obls, o)
		}
	}
	return obls, errs
}

// assumed at function entry
func (e *FnEnc) assumePkgInvariants() {
	if e.skipPkgInv || e.fn == nil || e.fn.Pkg == nil {
		return
	}
	own := e.fn.Pkg.Pkg.Path()
	for _, pp := range sortedKeys(e.prog.pkgInvs) {
		pk := e.prog.typesPkg(pp)
		if pk == nil {
			continue // package not in this program
		}
		env := e.entryEnv()
		env.pkg = pk
		if pp != own {
			env.vars = map[string]Val{} // no parameter names of this function in another package's invariant
			if !e.prog.roots[pp] {
				e.note("package invariant of " + pp + " assumed (dependency: its init is not verified in this run)")
			}
		}
		for _, c := range e.prog.pkgInvs[pp] {
			e.assert(e.evalBool(c.E, env, c))
		}
	}
	e.flushFacts()
}

// embedded / element references are allocated at entry exactly when their parent object is
func (e *FnEnc) allocClosureAxioms() {
	a0 := quoteSym("$alloc")
	if e.ufs["emb_axioms"] && !e.ufs["alloc_closure_emb"] {
		e.ufs["alloc_closure_emb"] = true
		e.specDefs = append(e.specDefs, "(assert (forall ((r Int) (j Int)) (! (= (select "+a0+" (emb r j)) (select "+a0+" r)) :pattern ((emb r j)))))")
	}
	if e.ufs["eaddr_axioms"] && !e.ufs["alloc_closure_eaddr"] {
		e.ufs["alloc_closure_eaddr"] = true
		e.specDefs = append(e.specDefs, "(assert (forall ((r Int) (j "+e.sorter.idxSort()+")) (! (= (select "+a0+" (eaddr r j)) (select "+a0+" r)) :pattern ((eaddr r j)))))")
	}
}

package main

import "golang.org/x/tools/go/ssa"

// allocStaysLocal: every use of the alloc is a direct load/store through it or through a field address
// (no call argument, no store of the pointer itself, no phi, no interface boxing)
func (e *FnEnc) allocStaysLocal(a *ssa.Alloc) bool {
	var ok func(v ssa.Value, depth int) bool
	ok = func(v ssa.Value, depth int) bool {
		refs := v.Referrers()
		if refs == nil {
			return false
		}
		for _, in := range *refs {
			switch x := in.(type) {
			case *ssa.DebugRef:
			case *ssa.UnOp:
				// load
			case *ssa.Store:
				if x.Val == v {
					return false // the pointer itself is stored somewhere
				}
			case *ssa.FieldAddr:
				if depth > 3 || !ok(x, depth+1) {
					return false
				}
			default:
				return false
			}
		}
		return true
	}
	return ok(a, 0)
}

package main

// Counterexample replay: a model of a failed obligation is turned into an in-package Go test that
// drives the real function and evaluates the contract (compiled to Go). The test is injected with
// `go test -overlay` so nothing is written into /repo.

import (
	"encoding/json"
	"fmt"
	"go/types"
	"math/big"
	"os"
	"os/exec"
	"path/filepath"
	"regexp"
	"strings"
	"sync"
	"time"
)

type goCompiler struct {
	e       *FnEnc
	prog    *Program
	oldMode bool
	specs   map[string]bool
	specSrc []string
	fail    string
	results []string
	pkg     *types.Package
}

func (g *goCompiler) bad(f string, a ...interface{}) string {
	if g.fail == "" {
		g.fail = fmt.Sprintf(f, a...)
	}
	return "false"
}

// split a conjunction into conjuncts
func conjuncts(e Expr) []Expr {
	if b, ok := e.(*EBinary); ok && b.Op == "&&" {
		return append(conjuncts(b.X), conjuncts(b.Y)...)
	}
	return []Expr{e}
}

func (g *goCompiler) quantBounds(q *EQuant) (lo, hi string, ok bool) {
	var ante Expr
	body := q.Body
	if b, isB := body.(*EBinary); isB && (b.Op == "==>" && q.Forall || b.Op == "&&" && !q.Forall) {
		ante = b.X
	} else {
		return "", "", false
	}
	for _, c := range conjuncts(ante) {
		b, isB := c.(*EBinary)
		if !isB {
			continue
		}
		xi, xIsV := b.X.(*EIdent)
		yi, yIsV := b.Y.(*EIdent)
		switch {
		case yIsV && yi.Name == q.Var && b.Op == "<=":
			lo = g.expr(b.X)
		case yIsV && yi.Name == q.Var && b.Op == "<":
			lo = "(" + g.expr(b.X) + ")+1"
		case xIsV && xi.Name == q.Var && b.Op == "<":
			hi = g.expr(b.Y)
		case xIsV && xi.Name == q.Var && b.Op == "<=":
			hi = "(" + g.expr(b.Y) + ")+1"
		case xIsV && xi.Name == q.Var && b.Op == ">=":
			lo = g.expr(b.Y)
		}
	}
	return lo, hi, lo != "" && hi != ""
}

func (g *goCompiler) expr(x Expr) string {
	switch n := x.(type) {
	case *EInt:
		return n.V.String()
	case *EBool:
		return fmt.Sprint(n.V)
	case *EStr:
		return fmt.Sprintf("%q", n.V)
	case *EIdent:
		if strings.HasPrefix(n.Name, "result") {
			i := 0
			fmt.Sscanf(n.Name, "result%d", &i)
			return fmt.Sprintf("res%d", i)
		}
		for i, r := range g.results {
			if r == n.Name {
				return fmt.Sprintf("res%d", i)
			}
		}
		if g.oldMode {
			if _, isParam := g.e.params[n.Name]; isParam {
				return "old_" + n.Name
			}
		}
		return n.Name
	case *EUnary:
		return "(" + n.Op + g.expr(n.X) + ")"
	case *EStar:
		return "(*" + g.expr(n.X) + ")"
	case *EBinary:
		switch n.Op {
		case "==>":
			return "(!(" + g.expr(n.X) + ") || (" + g.expr(n.Y) + "))"
		case "<==>":
			return "((" + g.expr(n.X) + ") == (" + g.expr(n.Y) + "))"
		}
		return "(" + g.expr(n.X) + " " + n.Op + " " + g.expr(n.Y) + ")"
	case *ECond:
		return "func() interface{} { if " + g.expr(n.C) + " { return " + g.expr(n.A) + " }; return " + g.expr(n.B) + " }()"
	case *EIndex:
		return g.expr(n.X) + "[" + g.expr(n.I) + "]"
	case *ESlice:
		lo, hi := "", ""
		if n.Lo != nil {
			lo = g.expr(n.Lo)
		}
		if n.Hi != nil {
			hi = g.expr(n.Hi)
		}
		return g.expr(n.X) + "[" + lo + ":" + hi + "]"
	case *ESel:
		return g.expr(n.X) + "." + n.F
	case *EQuant:
		lo, hi, ok := g.quantBounds(n)
		if !ok {
			return g.bad("quantifier without syntactic bounds: %s", n)
		}
		if n.Forall {
			return fmt.Sprintf("func() bool { for %s := %s(%s); %s < %s(%s); %s++ { if !(%s) { return false } }; return true }()", n.Var, n.Typ, lo, n.Var, n.Typ, hi, n.Var, g.expr(n.Body))
		}
		return fmt.Sprintf("func() bool { for %s := %s(%s); %s < %s(%s); %s++ { if %s { return true } }; return false }()", n.Var, n.Typ, lo, n.Var, n.Typ, hi, n.Var, g.expr(n.Body))
	case *ECall:
		switch n.Fun {
		case "len", "cap", "min", "max":
			var as []string
			for _, a := range n.Args {
				as = append(as, g.expr(a))
			}
			if n.Fun == "min" || n.Fun == "max" {
				op := "<"
				if n.Fun == "max" {
					op = ">"
				}
				return fmt.Sprintf("func() int { a, b := int(%s), int(%s); if a %s b { return a }; return b }()", as[0], as[1], op)
			}
			return n.Fun + "(" + strings.Join(as, ", ") + ")"
		case "old":
			save := g.oldMode
			g.oldMode = true
			r := g.expr(n.Args[0])
			g.oldMode = save
			return r
		case "disjoint":
			return fmt.Sprintf("govcDisjoint(%s, %s)", g.expr(n.Args[0]), g.expr(n.Args[1]))
		case "sameptr":
			return fmt.Sprintf("(govcPtr(%s) == govcPtr(%s))", g.expr(n.Args[0]), g.expr(n.Args[1]))
		case "typeis":
			if s, ok := n.Args[1].(*EStr); ok {
				return fmt.Sprintf("func() bool { _, ok := interface{}(%s).(%s); return ok }()", g.expr(n.Args[0]), goTypeName(s.V, g.pkg))
			}
			return g.bad("typeis needs a literal type")
		case "unbox":
			if s, ok := n.Args[1].(*EStr); ok {
				return fmt.Sprintf("interface{}(%s).(%s)", g.expr(n.Args[0]), goTypeName(s.V, g.pkg))
			}
			return g.bad("unbox needs a literal type")
		case "allocated", "allocatedNow", "closed", "base", "off", "embed", "pre":
			return g.bad("%s() is not executable", n.Fun)
		}
		if _, ok := convNames[n.Fun]; ok {
			return n.Fun + "(" + g.expr(n.Args[0]) + ")"
		}
		if sf := g.prog.findSpec(g.pkg, n.Fun); sf != nil {
			g.compileSpec(sf)
			var as []string
			for _, a := range n.Args {
				as = append(as, g.expr(a))
			}
			return "govcSpec_" + sf.Name + "(" + strings.Join(as, ", ") + ")"
		}
		return g.bad("unknown function %s", n.Fun)
	}
	return g.bad("unsupported expression %T", x)
}

func (g *goCompiler) compileSpec(sf *SpecFunc) {
	if g.specs[sf.Name] {
		return
	}
	g.specs[sf.Name] = true
	saveR, saveO := g.results, g.oldMode
	g.results, g.oldMode = nil, false
	defer func() { g.results, g.oldMode = saveR, saveO }()
	var ps []string
	for _, p := range sf.Params {
		ps = append(ps, p.Name+" "+p.Typ)
	}
	body := g.expr(sf.Body)
	if c, ok := sf.Body.(*ECond); ok {
		body = "func() " + sf.Ret + " { if " + g.expr(c.C) + " { return " + g.goTyped(c.A, sf.Ret) + " }; return " + g.goTyped(c.B, sf.Ret) + " }()"
	}
	g.specSrc = append(g.specSrc, fmt.Sprintf("func govcSpec_%s(%s) %s { return %s }", sf.Name, strings.Join(ps, ", "), sf.Ret, body))
}

func (g *goCompiler) goTyped(x Expr, typ string) string {
	if c, ok := x.(*ECond); ok {
		return "func() " + typ + " { if " + g.expr(c.C) + " { return " + g.goTyped(c.A, typ) + " }; return " + g.goTyped(c.B, typ) + " }()"
	}
	return typ + "(" + g.expr(x) + ")"
}

// ---- model to inputs ----

type replayPlan struct {
	e      *FnEnc
	terms  []string // SMT terms to evaluate
	bound  int
	sizeCs []string // size constraints for minimisation
	fail   string
}

func (p *replayPlan) q(term string) int {
	p.terms = append(p.terms, term)
	return len(p.terms) - 1
}

type goVal func(vals []string) string

func parseSMTInt(s string) *big.Int {
	s = strings.TrimSpace(s)
	if strings.HasPrefix(s, "#x") {
		v, _ := new(big.Int).SetString(s[2:], 16)
		return v
	}
	if strings.HasPrefix(s, "#b") {
		v, _ := new(big.Int).SetString(s[2:], 2)
		return v
	}
	if strings.HasPrefix(s, "(-") {
		v, _ := new(big.Int).SetString(strings.TrimSpace(strings.Trim(s, "()-")), 10)
		if v == nil {
			return big.NewInt(0)
		}
		return v.Neg(v)
	}
	v, ok := new(big.Int).SetString(s, 10)
	if !ok {
		return big.NewInt(0)
	}
	return v
}

func signedOf(v *big.Int, t types.Type, bv bool) *big.Int {
	if !bv || isUnsigned(t) {
		return v
	}
	w := intWidth(t)
	if v.Cmp(pow2(w-1)) >= 0 {
		return new(big.Int).Sub(v, pow2(w))
	}
	return v
}

func (p *replayPlan) qualifier(t types.Type) string {
	return types.TypeString(t, func(pk *types.Package) string {
		if pk == p.e.pkg {
			return ""
		}
		return pk.Name()
	})
}

// plan how to build a Go expression for a value of type t described by v (in the pre-state)
func (p *replayPlan) build(t types.Type, v Val, depth int) goVal {
	e := p.e
	bv := e.sorter.mode == ModeBV
	if st, ok := t.Underlying().(*types.Struct); ok && depth <= 1 {
		var fs []goVal
		var names []string
		for i := 0; i < st.NumFields(); i++ {
			f := st.Field(i)
			switch f.Type().Underlying().(type) {
			case *types.Basic, *types.Slice:
			default:
				continue
			}
			if isFloatType(f.Type()) {
				continue
			}
			lo, hi := e.sorter.fieldRange(st, i)
			g := p.build(f.Type(), Val{T: f.Type(), L: v.L[lo:hi]}, depth+1)
			if g == nil {
				continue
			}
			fs = append(fs, g)
			names = append(names, f.Name())
		}
		tn := p.qualifier(t)
		return func(vals []string) string {
			var xs []string
			for i, g := range fs {
				xs = append(xs, names[i]+": "+g(vals))
			}
			return tn + "{" + strings.Join(xs, ", ") + "}"
		}
	}
	switch u := t.Underlying().(type) {
	case *types.Basic:
		switch {
		case u.Info()&types.IsBoolean != 0:
			i := p.q(v.L[0])
			return func(vals []string) string { return vals[i] }
		case u.Info()&types.IsInteger != 0:
			i := p.q(v.L[0])
			tn := p.qualifier(t)
			return func(vals []string) string {
				return fmt.Sprintf("%s(%s)", tn, signedOf(parseSMTInt(vals[i]), t, bv).String())
			}
		case u.Info()&types.IsString != 0:
			li := p.q(e.strLen(v.L[0]))
			p.sizeCs = append(p.sizeCs, e.idxLe(e.strLen(v.L[0]), e.idxConst(int64(p.bound))))
			var cells []int
			for k := 0; k < p.bound; k++ {
				cells = append(cells, p.q(e.strAt(v.L[0], e.idxConst(int64(k)))))
			}
			return func(vals []string) string {
				n := int(signedOf(parseSMTInt(vals[li]), tInt, bv).Int64())
				if n < 0 || n > len(cells) {
					n = 0
				}
				bs := make([]byte, n)
				for k := 0; k < n; k++ {
					bs[k] = byte(parseSMTInt(vals[cells[k]]).Int64())
				}
				return fmt.Sprintf("%q", string(bs))
			}
		}
	case *types.Slice:
		if isAggregateElem(u.Elem()) || depth > 2 {
			break
		}
		bi := p.q(v.L[0])
		li := p.q(v.L[2])
		p.sizeCs = append(p.sizeCs, e.idxLe(v.L[2], e.idxConst(int64(p.bound))))
		var cells []goVal
		for k := 0; k < p.bound; k++ {
			ev := e.sliceElem(Val{T: t, L: v.L}, e.idxConst(int64(k)))
			cells = append(cells, p.build(u.Elem(), ev, depth+1))
		}
		tn := p.qualifier(t)
		return func(vals []string) string {
			if parseSMTInt(vals[bi]).Sign() == 0 {
				return tn + "(nil)"
			}
			n := int(signedOf(parseSMTInt(vals[li]), tInt, bv).Int64())
			if n < 0 || n > len(cells) {
				n = 0
			}
			var xs []string
			for k := 0; k < n; k++ {
				xs = append(xs, cells[k](vals))
			}
			return tn + "{" + strings.Join(xs, ", ") + "}"
		}
	case *types.Pointer:
		st, ok := u.Elem().Underlying().(*types.Struct)
		if !ok || depth > 1 {
			break
		}
		ri := p.q(v.L[0])
		var fs []goVal
		var names []string
		for i := 0; i < st.NumFields(); i++ {
			f := st.Field(i)
			switch f.Type().Underlying().(type) {
			case *types.Basic, *types.Slice:
			default:
				continue // left at its zero value
			}
			if isFloatType(f.Type()) {
				continue
			}
			fv := e.loadField(v.L[0], u.Elem(), i)
			g := p.build(f.Type(), fv, depth+1)
			if g == nil {
				continue
			}
			fs = append(fs, g)
			names = append(names, f.Name())
		}
		tn := p.qualifier(u.Elem())
		return func(vals []string) string {
			if parseSMTInt(vals[ri]).Sign() == 0 {
				return "(*" + tn + ")(nil)"
			}
			var xs []string
			for i, g := range fs {
				xs = append(xs, names[i]+": "+g(vals))
			}
			return "&" + tn + "{" + strings.Join(xs, ", ") + "}"
		}
	}
	if p.fail == "" {
		p.fail = "parameter type " + t.String() + " cannot be rebuilt from a model"
	}
	return nil
}

var gvRe = regexp.MustCompile(`\(gv_(\d+)\s+((?:\(-\s*\d+\))|[^\s()]+)\)`)

func tryReplay(o *Obligation, prog *Program, b *strings.Builder) {
	e := o.enc
	if e == nil || e.fn == nil || o.Kind == "cover" {
		return
	}
	defer func() {
		if r := recover(); r != nil {
			fmt.Fprintf(b, "replay: not available (%v)\n", r)
		}
	}()
	if o.Status != "failed" || len(o.Model) == 0 {
		fmt.Fprintf(b, "replay: the solvers returned no model for this obligation (status %s)\n", o.Status)
		witnessSearch(o, prog, b)
		return
	}
	src, why := buildReplayTest(o, prog)
	if src == "" {
		fmt.Fprintf(b, "replay: not available: %s\n", why)
		witnessSearch(o, prog, b)
		return
	}
	dir := filepath.Join(verifDir, "replay", firstProp(o))
	os.MkdirAll(dir, 0o755)
	tf := filepath.Join(dir, sanitizeFile(o.Name)+"_test.go.txt")
	os.WriteFile(tf, []byte(src), 0o644)
	out, failed := runReplayTest(e.fn.Pkg.Pkg.Path(), tf)
	fmt.Fprintf(b, "replay test: %s\nreplay command: govc replay %s %s\n", tf, e.fn.Pkg.Pkg.Path(), tf)
	if failed {
		o.replayed = true
		fmt.Fprintf(b, "replay result: the real function violates the contract on this input\n%s\n", out)
		return
	}
	fmt.Fprintf(b, "replay result: not reproduced on the real code with the solver's inputs\n%s\n", trimOutN(out, 3000))
	witnessSearch(o, prog, b)
}

type searchResult struct {
	done   chan struct{}
	tf     string
	out    string
	failed bool
	why    string
}

var searchCache = map[string]*searchResult{}
var searchMu sync.Mutex

// one witness search per function, shared by all its failed obligations
func witnessSearch(o *Obligation, prog *Program, b *strings.Builder) {
	e := o.enc
	searchMu.Lock()
	sr, ok := searchCache[e.key]
	if !ok {
		sr = &searchResult{done: make(chan struct{})}
		searchCache[e.key] = sr
	}
	searchMu.Unlock()
	if ok {
		<-sr.done
	} else {
		src, why := buildSearchTest(o, prog)
		if src == "" {
			sr.why = why
		} else {
			dir := filepath.Join(verifDir, "replay", firstProp(o))
			sr.tf = filepath.Join(dir, sanitizeFile(e.key)+"_search_test.go.txt")
			os.WriteFile(sr.tf, []byte(src), 0o644)
			sr.out, sr.failed = runReplayTest(e.fn.Pkg.Pkg.Path(), sr.tf)
		}
		close(sr.done)
	}
	if sr.tf == "" {
		fmt.Fprintf(b, "witness search: not available: %s\n", sr.why)
		return
	}
	if sr.failed {
		o.replayed = true
		fmt.Fprintf(b, "witness search: %s\nreplay command: govc replay %s %s\nwitness search result: the real function violates its contract\n%s\n", sr.tf, e.fn.Pkg.Pkg.Path(), sr.tf, trimOutN(sr.out, 3000))
		return
	}
	fmt.Fprintf(b, "witness search: no failing input found in the explored scope\n%s\n", trimOutN(sr.out, 2000))
}

func witnessSearchOld(o *Obligation, prog *Program, b *strings.Builder) {
	e := o.enc
	src, why := buildSearchTest(o, prog)
	if src == "" {
		fmt.Fprintf(b, "witness search: not available: %s\n", why)
		return
	}
	dir := filepath.Join(verifDir, "replay", firstProp(o))
	tf := filepath.Join(dir, sanitizeFile(o.Name)+"_search_test.go.txt")
	os.WriteFile(tf, []byte(src), 0o644)
	out, failed := runReplayTest(e.fn.Pkg.Pkg.Path(), tf)
	if failed {
		o.replayed = true
		fmt.Fprintf(b, "witness search: %s\nreplay command: govc replay %s %s\nwitness search result: the real function violates the contract\n%s\n", tf, e.fn.Pkg.Pkg.Path(), tf, trimOutN(out, 3000))
		return
	}
	fmt.Fprintf(b, "witness search: no failing input found in the explored scope\n%s\n", trimOutN(out, 2000))
}

func firstProp(o *Obligation) string {
	if len(o.Props) > 0 {
		return o.Props[0]
	}
	return "misc"
}

func runReplayTest(pkgPath, testFile string) (string, bool) {
	tmp, _ := os.MkdirTemp("", "govc-replay-")
	defer os.RemoveAll(tmp)
	rel := strings.TrimPrefix(pkgPath, repoMod)
	target := filepath.Join(repoDir, rel, "zz_govc_replay_test.go")
	src, _ := os.ReadFile(testFile)
	tf := filepath.Join(tmp, "replay_test.go")
	os.WriteFile(tf, src, 0o644)
	ov, _ := json.Marshal(map[string]interface{}{"Replace": map[string]string{target: tf}})
	ovf := filepath.Join(tmp, "ov.json")
	os.WriteFile(ovf, ov, 0o644)
	cmd := exec.Command("go", "test", "-overlay", ovf, "-vet=off", "-count=1", "-timeout", "60s", "-run", "^TestGovcReplay$", "."+rel)
	cmd.Dir = repoDir
	cmd.Env = append(os.Environ(), "GOFLAGS=-mod=mod", "GOPROXY=off", "GOSUMDB=off", "GOTOOLCHAIN=local")
	done := make(chan struct{})
	var out []byte
	go func() { out, _ = cmd.CombinedOutput(); close(done) }()
	select {
	case <-done:
	case <-time.After(150 * time.Second):
		cmd.Process.Kill()
		<-done
	}
	s := string(out)
	return s, strings.Contains(s, "GOVC-REPLAY-FAIL")
}

// buildReplayTest returns Go source of the replay test, or "" and the reason
func buildReplayTest(o *Obligation, prog *Program) (string, string) {
	e := o.enc
	fn := e.fn
	if fn.Signature.Recv() != nil {
		if _, ok := fn.Signature.Recv().Type().Underlying().(*types.Pointer); !ok {
			return "", "value receivers not supported by replay"
		}
	}
	// compile the contract first: if it is not executable there is no point in asking for values
	g := &goCompiler{e: e, prog: prog, specs: map[string]bool{}, pkg: e.pkg}
	res := fn.Signature.Results()
	for i := 0; i < res.Len(); i++ {
		g.results = append(g.results, res.At(i).Name())
	}
	var reqs, enss []string
	for _, r := range e.c.Requires {
		reqs = append(reqs, g.expr(r.E))
	}
	for _, c := range e.c.Ensures {
		enss = append(enss, fmt.Sprintf("if !(%s) { t.Fatalf(\"GOVC-REPLAY-FAIL ensures %%s violated; inputs: %%s\", %q, inputs) }", g.expr(c.E), c.Label+" "+c.Src))
	}
	if g.fail != "" {
		return "", "contract not executable: " + g.fail
	}
	var vals []string
	var builders []goVal
	var plan *replayPlan
	st := e.st
	e.st = e.st0
	defer func() { e.st = st }()
	for _, bound := range []int{3, 8, 40, 300} {
		plan = &replayPlan{e: e, bound: bound}
		builders = nil
		for _, p := range fn.Params {
			builders = append(builders, plan.build(p.Type(), e.params[p.Name()], 0))
		}
		if plan.fail != "" {
			return "", plan.fail
		}
		vals = queryValues(o, plan)
		if vals != nil {
			break
		}
		if len(plan.sizeCs) == 0 {
			break // no size to vary
		}
	}
	if vals == nil {
		return "", "no small model (slice lengths <= 300) found for the failed obligation"
	}
	var sb strings.Builder
	fmt.Fprintf(&sb, "package %s\n\n// generated by govc: replay of %s\n\nimport (\n\t\"fmt\"\n\t\"reflect\"\n\t\"testing\"\n)\n\n", e.pkg.Name(), o.Name)
	sb.WriteString(goHelpers + "\n")
	for _, s := range g.specSrc {
		sb.WriteString(s + "\n")
	}
	sb.WriteString("\nfunc TestGovcReplay(t *testing.T) {\n")
	var names, olds []string
	for i, p := range fn.Params {
		fmt.Fprintf(&sb, "\t%s := %s\n", p.Name(), builders[i](vals))
		names = append(names, p.Name())
		switch u := p.Type().Underlying().(type) {
		case *types.Slice:
			olds = append(olds, fmt.Sprintf("\told_%s := append(%s(nil), %s...)", p.Name(), plan.qualifier(p.Type()), p.Name()))
		case *types.Pointer:
			_ = u
			olds = append(olds, snapshotPtr(p.Name(), p.Type(), plan.qualifier))
		default:
			olds = append(olds, fmt.Sprintf("\told_%s := %s", p.Name(), p.Name()))
		}
	}
	var fmts []string
	for _, n := range names {
		fmts = append(fmts, n+"=%#v")
	}
	fmt.Fprintf(&sb, "\tinputs := fmt.Sprintf(%q, %s)\n", strings.Join(fmts, " "), strings.Join(derefAll(fn.Params, names), ", "))
	for _, o := range olds {
		sb.WriteString(o + "\n")
	}
	for _, n := range names {
		fmt.Fprintf(&sb, "\t_ = old_%s\n", n)
	}
	for _, r := range reqs {
		fmt.Fprintf(&sb, "\tif !(%s) { t.Skip(\"precondition does not hold on the model\") }\n", r)
	}
	sb.WriteString("\tdefer func() { if r := recover(); r != nil { t.Fatalf(\"GOVC-REPLAY-FAIL panic: %v; inputs: %s\", r, inputs) } }()\n")
	call := ""
	if fn.Signature.Recv() != nil {
		call = names[0] + "." + fn.Name() + "(" + strings.Join(names[1:], ", ") + ")"
	} else {
		call = fn.Name() + "(" + strings.Join(names, ", ") + ")"
	}
	if res.Len() > 0 {
		var rs []string
		for i := 0; i < res.Len(); i++ {
			rs = append(rs, fmt.Sprintf("res%d", i))
		}
		fmt.Fprintf(&sb, "\t%s := %s\n", strings.Join(rs, ", "), call)
		for _, r := range rs {
			fmt.Fprintf(&sb, "\t_ = %s\n", r)
		}
	} else {
		fmt.Fprintf(&sb, "\t%s\n", call)
	}
	for _, s := range enss {
		sb.WriteString("\t" + s + "\n")
	}
	sb.WriteString("}\n")
	return sb.String(), ""
}

func derefAll(params interface{}, names []string) []string {
	return names
}

// ask the solver for a model of the failed obligation with small inputs and evaluate the planned terms
func queryValues(o *Obligation, plan *replayPlan) []string {
	e := o.enc
	var b strings.Builder
	b.WriteString("(set-option :produce-models true)\n(set-logic ALL)\n")
	for _, d := range e.decls {
		b.WriteString(d + "\n")
	}
	for _, d := range e.specDefs {
		b.WriteString(d + "\n")
	}
	for _, a := range e.asserts[:o.nAsserts] {
		b.WriteString("(assert " + a + ")\n")
	}
	if o.Guard != "" && o.Guard != "true" {
		b.WriteString("(assert " + o.Guard + ")\n")
	}
	b.WriteString("(assert (not " + o.Goal + "))\n")
	for _, c := range plan.sizeCs {
		b.WriteString("(assert " + c + ")\n")
	}
	b.WriteString("(check-sat)\n")
	var gv []string
	for _, t := range plan.terms {
		gv = append(gv, t)
	}
	// get-value prints (term value) pairs in order; we parse values positionally
	b.WriteString("(get-value (" + strings.Join(gv, " ") + "))\n")
	tmp, _ := os.MkdirTemp("", "govc-model-")
	defer os.RemoveAll(tmp)
	f := filepath.Join(tmp, "m.smt2")
	os.WriteFile(f, []byte(b.String()), 0o644)
	for _, solver := range [][]string{{"z3-new", "-T:6", f}} {
		out, _ := exec.Command(solver[0], solver[1:]...).CombinedOutput()
		s := string(out)
		if firstWord(s) != "sat" {
			continue
		}
		i := strings.Index(s, "sat")
		vals := parseGetValue(s[i+3:], len(plan.terms))
		if vals != nil {
			return vals
		}
	}
	return nil
}

// parse "((t1 v1) (t2 v2) ...)" positionally: each pair is a balanced list whose last element is the value
func parseGetValue(s string, n int) []string {
	s = strings.TrimSpace(s)
	if !strings.HasPrefix(s, "(") {
		return nil
	}
	var vals []string
	i := 1
	for i < len(s) && len(vals) < n {
		for i < len(s) && (s[i] == ' ' || s[i] == '\n') {
			i++
		}
		if i >= len(s) || s[i] != '(' {
			break
		}
		// pair starts
		d := 0
		j := i
		inQ := false
		for ; j < len(s); j++ {
			if s[j] == '|' {
				inQ = !inQ
			}
			if inQ {
				continue
			}
			if s[j] == '(' {
				d++
			} else if s[j] == ')' {
				d--
				if d == 0 {
					break
				}
			}
		}
		pair := s[i+1 : j]
		// value = last top-level element of pair
		k := len(pair) - 1
		for k >= 0 && (pair[k] == ' ' || pair[k] == '\n') {
			k--
		}
		end := k + 1
		if pair[k] == ')' {
			d := 0
			for ; k >= 0; k-- {
				if pair[k] == ')' {
					d++
				} else if pair[k] == '(' {
					d--
					if d == 0 {
						break
					}
				}
			}
		} else {
			for k >= 0 && pair[k] != ' ' && pair[k] != '\n' && pair[k] != ')' {
				k--
			}
			k++
		}
		vals = append(vals, strings.Join(strings.Fields(pair[k:end]), " "))
		i = j + 1
	}
	if len(vals) != n {
		return nil
	}
	return vals
}

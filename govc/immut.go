package main

// Immutable fields: `//@ type T` / `//@   immutable f, g` declares that no function stores to T.f after
// the object's construction (stores through a pointer that is a fresh allocation of the same function,
// i.e. composite literals and new(T), are allowed). The declaration is *checked* syntactically over the
// SSA of every loaded repository package on every run, and *used* to keep those field arrays across
// calls that otherwise havoc the whole heap.

import (
	"fmt"
	"go/types"
	"sort"
	"strings"

	"golang.org/x/tools/go/ssa"
	"golang.org/x/tools/go/ssa/ssautil"
)

type immField struct {
	tc     *TypeContract
	named  types.Type
	st     *types.Struct
	idx    int
	fname  string
}

func (p *Program) immutableFields() []immField {
	if p.immCache != nil {
		return p.immCache
	}
	out := []immField{}
	for _, k := range sortedKeys(p.tcontracts) {
		tc := p.tcontracts[k]
		if len(tc.Immutable) == 0 {
			continue
		}
		pk := p.typesPkg(tc.PkgPath)
		if pk == nil {
			continue
		}
		tn, ok := pk.Scope().Lookup(tc.Name).(*types.TypeName)
		if !ok {
			p.immErrors = append(p.immErrors, fmt.Sprintf("%s:%d: no type %s in %s", tc.File, tc.Line, tc.Name, tc.PkgPath))
			continue
		}
		st, ok := tn.Type().Underlying().(*types.Struct)
		if !ok {
			p.immErrors = append(p.immErrors, fmt.Sprintf("%s:%d: %s is not a struct", tc.File, tc.Line, tc.Name))
			continue
		}
		for _, f := range tc.Immutable {
			idx := -1
			for i := 0; i < st.NumFields(); i++ {
				if st.Field(i).Name() == f {
					idx = i
				}
			}
			if idx < 0 {
				p.immErrors = append(p.immErrors, fmt.Sprintf("%s:%d: %s has no field %s", tc.File, tc.Line, tc.Name, f))
				continue
			}
			out = append(out, immField{tc, tn.Type(), st, idx, f})
		}
	}
	p.immCache = out
	return out
}

type namedSort struct{ name, sort string }

func (p *Program) immutableArrays(s sorter) []namedSort {
	var out []namedSort
	for _, f := range p.immutableFields() {
		ft := f.st.Field(f.idx).Type()
		if isAggregateElem(ft) {
			continue
		}
		for _, l := range s.leaves(ft) {
			out = append(out, namedSort{objArrName(typeName(f.named), "."+f.fname+l.suffix), "(Array Int " + l.sort + ")"})
		}
	}
	return out
}

// checkImmutable scans every function of the loaded repository packages
func (p *Program) checkImmutable() []*Obligation {
	fields := p.immutableFields()
	if len(fields) == 0 && len(p.immErrors) == 0 {
		return nil
	}
	viol := map[int][]string{}
	fns := ssautil.AllFunctions(p.ssaProg)
	var list []*ssa.Function
	for fn := range fns {
		if fn.Pkg == nil || !p.isRepoPkg(fn.Pkg.Pkg.Path()) || len(fn.Blocks) == 0 {
			continue
		}
		list = append(list, fn)
	}
	sort.Slice(list, func(i, j int) bool { return list[i].String() < list[j].String() })
	for _, fn := range list {
		for _, b := range fn.Blocks {
			for _, in := range b.Instrs {
				st, ok := in.(*ssa.Store)
				if !ok {
					continue
				}
				// whole-struct stores (*p = T{...}) overwrite every field of T: allowed only into fresh storage
				if ap, isP := st.Addr.Type().Underlying().(*types.Pointer); isP {
					for i, f := range fields {
						if !types.Identical(ap.Elem(), f.named) {
							continue
						}
						fresh := false
						switch a := st.Addr.(type) {
						case *ssa.Alloc:
							fresh = true
						case *ssa.FieldAddr:
							_, fresh = a.X.(*ssa.Alloc)
						}
						if !fresh {
							pos := p.fset.Position(st.Pos())
							viol[i] = append(viol[i], fmt.Sprintf("%s overwrites a whole %s (including %s) at %s:%d", fn.String(), f.tc.Name, f.fname, pos.Filename, pos.Line))
						}
					}
				}
				fa, ok := st.Addr.(*ssa.FieldAddr)
				if !ok {
					continue
				}
				pt, ok := fa.X.Type().Underlying().(*types.Pointer)
				if !ok {
					continue
				}
				for i, f := range fields {
					if !types.Identical(pt.Elem(), f.named) || fa.Field != f.idx {
						continue
					}
					if _, fresh := fa.X.(*ssa.Alloc); fresh {
						continue
					}
					pos := p.fset.Position(st.Pos())
					viol[i] = append(viol[i], fmt.Sprintf("%s stores to %s.%s at %s:%d", fn.String(), f.tc.Name, f.fname, pos.Filename, pos.Line))
				}
			}
		}
	}
	var obls []*Obligation
	for i, f := range fields {
		if !p.roots[f.tc.PkgPath] {
			p.immAssumed = append(p.immAssumed, fmt.Sprintf("immutable %s.%s.%s is assumed in this run (its package is only a dependency here; it is checked by the runs that verify that package)", pkgBase(f.tc.PkgPath), f.tc.Name, f.fname))
			continue
		}
		o := &Obligation{Name: fmt.Sprintf("%s.%s#immutable[%s]", pkgBase(f.tc.PkgPath), f.tc.Name, f.fname), Kind: "immutable", Props: f.tc.Props, Fn: f.tc.Name, Backend: "syntactic-scan", Status: "proved"}
		if len(viol[i]) > 0 {
			o.Status = "failed"
			o.Output = strings.Join(viol[i], "\n")
		}
		obls = append(obls, o)
	}
	for _, e := range p.immErrors {
		obls = append(obls, &Obligation{Name: "immutable-declaration-error", Kind: "immutable", Status: "failed", Output: e, Backend: "syntactic-scan"})
	}
	return obls
}

package main

import "go/types"

func isRuneSlice(t types.Type) bool {
	s, ok := t.Underlying().(*types.Slice)
	if !ok {
		return false
	}
	b, ok := s.Elem().Underlying().(*types.Basic)
	return ok && b.Kind() == types.Int32
}

package main

// Function encoder: go/ssa function -> passive block encoding + obligations.

import (
	"fmt"
	"go/token"
	"math/big"
	"os"
	"sync"
	"go/types"
	"sort"
	"strings"

	"golang.org/x/tools/go/ssa"
)

type State struct {
	heap  map[string]string
	epoch int // arrays absent from heap have their epoch-default name (epoch 0 = pre-state)
}

func (s *State) clone() *State {
	n := &State{heap: make(map[string]string, len(s.heap)), epoch: s.epoch}
	for k, v := range s.heap {
		n.heap[k] = v
	}
	return n
}

type Obligation struct {
	Name     string
	Kind     string
	Props    []string
	Fn       string
	nAsserts int
	Guard    string
	Goal     string
	Pos      string
	enc      *FnEnc
	Status   string // "proved" | "failed" | "unknown"
	Backend  string
	Secs     float64
	Output   string
	Model    map[string]string
	Cover    bool // cover query: expected sat
	file     string
	replayed bool
	subs     []*Obligation
	triedSubs bool
}

type loopInfo struct {
	header  *ssa.BasicBlock
	blocks  map[*ssa.BasicBlock]bool
	ordinal int
	backs   []*ssa.BasicBlock // sources of back edges
	mods    map[string]bool   // heap arrays written in the loop (collected in pass 1)
	modAll  bool
	auto    []autoInv
}

type FnEnc struct {
	prog   *Program
	fn     *ssa.Function
	c      *FuncContract
	key    string
	sorter sorter
	pkg    *types.Package

	decls    []string
	declared map[string]string
	asserts  []string
	obls     []*Obligation
	nfresh   int
	nepoch   int
	pass     int

	heapSort map[string]string
	vals     map[ssa.Value]Val
	guard    map[*ssa.BasicBlock]string
	outState map[*ssa.BasicBlock]*State
	curBlock *ssa.BasicBlock
	curIdx   int // index of the instruction being encoded in curBlock
	curGuard string
	st       *State
	st0      *State

	loops     map[*ssa.BasicBlock]*loopInfo
	backEdge  map[[2]*ssa.BasicBlock]bool
	params    map[string]Val
	results   []Val
	rets      []retInfo
	rangeFacts []string
	ufs       map[string]bool
	specDefs  []string
	specDone  map[string]*specSig
	strLits   map[string]string
	assumptions map[string]bool
	deferred  []*ssa.Defer
	err       error
	oblNames  map[string]int
	skipPkgInv bool
	structural []string
	localObjs map[string]string
	privCells []privCell
	callFvs   map[string]Val // captured variables of the closure whose contract is being applied at a call
	modAllowed map[string]func(string, string) string
	modAllowedDone bool
	symCache  map[int][]string
	pruneMu   sync.Mutex
	fvPtrs    map[string]Val // closures: captured variable name -> address of its cell
	loopPre   map[*loopInfo]*State
	exitState *State
	coverAsserts int // number of assertions in place when the exit was reached, before postconditions are assumed
	specHeapUse []map[string]bool
	specCtxs  []*specCtx
}

type retInfo struct {
	blk   *ssa.BasicBlock
	guard string
	vals  []Val
	st    *State
}

func (e *FnEnc) fresh(prefix string) string {
	e.nfresh++
	return fmt.Sprintf("%s!%d", prefix, e.nfresh)
}

func (e *FnEnc) decl(name, sort string) string {
	q := quoteSym(name)
	if old, ok := e.declared[q]; ok {
		if old != sort {
			panic(fmt.Sprintf("redeclare %s: %s vs %s", q, old, sort))
		}
		return q
	}
	e.declared[q] = sort
	e.decls = append(e.decls, "(declare-fun "+q+" () "+sort+")")
	return q
}

func (e *FnEnc) uf(name string, args []string, ret string) string {
	q := quoteSym(name)
	if !e.ufs[q] {
		e.ufs[q] = true
		e.decls = append(e.decls, "(declare-fun "+q+" ("+strings.Join(args, " ")+") "+ret+")")
	}
	return q
}

func (e *FnEnc) assert(f string) {
	if f == "" || f == "true" {
		return
	}
	e.asserts = append(e.asserts, f)
}

// assume under the current block guard
func (e *FnEnc) assume(f string) {
	if f == "" || f == "true" {
		return
	}
	e.assert(simp(e.curGuard, f))
}

func (e *FnEnc) flushFacts() {
	for _, f := range e.rangeFacts {
		e.assert(f)
	}
	e.rangeFacts = nil
}

func (e *FnEnc) note(s string) {
	if !e.assumptions[s] && os.Getenv("GOVC_DEBUG") != "" {
		fmt.Fprintln(os.Stderr, "note:", s)
	}
	e.assumptions[s] = true
}

func (e *FnEnc) define(name, sort, term string) string {
	q := e.decl(name, sort)
	e.assert("(= " + q + " " + term + ")")
	return q
}

func (e *FnEnc) oblige(kind, label, goal string, pos token.Pos) {
	if goal == "true" {
		// still count trivially true goals? they carry no information; skip
		return
	}
	name := e.key + "#" + kind
	if label != "" {
		name += "[" + label + "]"
	}
	e.oblNames[name]++
	if n := e.oblNames[name]; n > 1 {
		name = fmt.Sprintf("%s~%d", name, n)
	}
	p := ""
	if pos.IsValid() {
		pp := e.prog.fset.Position(pos)
		p = fmt.Sprintf("%s:%d", pp.Filename, pp.Line)
	}
	e.obls = append(e.obls, &Obligation{Name: name, Kind: kind, Props: e.c.Props, Fn: e.key, nAsserts: len(e.asserts), Guard: e.curGuard, Goal: goal, Pos: p, enc: e})
}

// ---------- heap access ----------

func (e *FnEnc) heapArr(name, sort string) string {
	if _, ok := e.heapSort[name]; !ok {
		e.heapSort[name] = sort
		e.decl(name, sort)
	}
	return e.heapIn(e.st, name)
}

func (e *FnEnc) heapIn(st *State, name string) string {
	if cur, ok := st.heap[name]; ok {
		return cur
	}
	if st.epoch == 0 {
		e.nilMapEmpty(name, quoteSym(name))
		return quoteSym(name)
	}
	if st.epoch == -1 { // symbolic heap of a spec function body
		if n := len(e.specHeapUse); n > 0 {
			e.specHeapUse[n-1][name] = true
		}
		return quoteSym("hf:" + name)
	}
	sym := e.decl(fmt.Sprintf("%s@%d", name, st.epoch), e.heapSort[name])
	e.nilMapEmpty(name, sym)
	return sym
}

// the nil map has no keys, in every state (a write to a nil map panics, a delete on it changes nothing): stated
// for every unconstrained version of a key-set array, so that `v, ok := m[k]` on a nil map is `zero, false`
func (e *FnEnc) nilMapEmpty(name, sym string) {
	if !strings.HasPrefix(name, "M/") || !strings.HasSuffix(name, "/dom") || e.ufs["nilmap:"+sym] {
		return
	}
	e.ufs["nilmap:"+sym] = true
	srt := e.heapSort[name]
	if !strings.HasPrefix(srt, "(Array Int (Array ") {
		return
	}
	ks := strings.TrimSuffix(strings.TrimPrefix(srt, "(Array Int (Array "), " Bool))")
	e.specDefs = append(e.specDefs, fmt.Sprintf("(assert (forall ((k %s)) (! (not (select (select %s 0) k)) :pattern ((select (select %s 0) k)))))", ks, sym, sym))
}

func (e *FnEnc) havocAll() {
	// immutable fields (checked syntactically, immut.go) keep their values on objects that already exist;
	// the allocation set only grows
	imm := e.prog.immutableArrays(e.sorter)
	glob := e.prog.invariantGlobalArrays(e.sorter)
	globOld := make([]string, len(glob))
	for i, a := range glob {
		globOld[i] = e.heapArr(a.name, a.sort)
	}
	defer func() {
		for i, a := range glob {
			e.st.heap[a.name] = globOld[i]
		}
	}()
	olds := make([]string, len(imm))
	for i, a := range imm {
		olds[i] = e.heapArr(a.name, a.sort)
	}
	snaps := e.privSnapshot()
	defer e.privRestore(snaps)
	allocBefore := e.heapArr("$alloc", "(Array Int Bool)")
	e.nepoch++
	prev := e.st.heap
	e.st.heap = map[string]string{}
	e.st.epoch = e.nepoch
	e.st.heap["$alloc"] = allocBefore
	for name, cur := range prev {
		// not locations a callee can reach: the state of this function's map iterators, and the field arrays
		// of stack structs whose address never leaves the function (localobj.go)
		if strings.HasPrefix(name, "R/") || strings.HasPrefix(name, "H/local:") {
			e.st.heap[name] = cur
		}
	}
	e.growAlloc()
	for i, a := range imm {
		nw := e.heapArr(a.name, a.sort)
		// objects that existed before the call, including structs embedded in them / elements of their arrays
		existed := "(select " + allocBefore + " r)"
		if e.ufs["emb_axioms"] {
			existed = "(or " + existed + " (select " + allocBefore + " (emb_par r)))"
		}
		if e.ufs["eaddr_axioms"] {
			existed = "(or " + existed + " (select " + allocBefore + " (eaddr_base r)))"
		}
		e.assume(fmt.Sprintf("(forall ((r Int)) (! (=> %s (= (select %s r) (select %s r))) :pattern ((select %s r))))", existed, nw, olds[i], nw))
	}
	if li := e.curLoopTrack(); li != nil {
		for _, l := range li {
			l.modAll = true
		}
	}
}

func (e *FnEnc) curLoopTrack() []*loopInfo {
	var out []*loopInfo
	for _, li := range e.loops {
		if li.blocks[e.curBlock] {
			out = append(out, li)
		}
	}
	return out
}

func (e *FnEnc) trackWrite(name string) {
	for _, li := range e.curLoopTrack() {
		if li.mods == nil {
			li.mods = map[string]bool{}
		}
		li.mods[name] = true
	}
}

func (e *FnEnc) setHeap(name, sort, term string) {
	if _, ok := e.heapSort[name]; !ok {
		e.heapSort[name] = sort
		e.decl(name, sort)
	}
	v := e.define(e.fresh(name), sort, term)
	e.st.heap[name] = v
	e.trackWrite(name)
}

func (e *FnEnc) havocHeap(name string) {
	sort := e.heapSort[name]
	v := e.decl(e.fresh(name), sort)
	e.st.heap[name] = v
	e.trackWrite(name)
}

func objArrName(objT, path string) string { return "H/" + objT + "/" + path }
func elemArrName(elT, suffix string) string { return "E/" + elT + "/" + suffix }

func (e *FnEnc) arrSort1(leafSort string) string { return "(Array Int " + leafSort + ")" }
func (e *FnEnc) arrSort2(leafSort string) string {
	return "(Array Int (Array " + e.sorter.idxSort() + " " + leafSort + "))"
}

func (e *FnEnc) emb(ref string, fld int) string {
	f := e.uf("emb", []string{"Int", "Int"}, "Int")
	if !e.ufs["emb_axioms"] {
		e.ufs["emb_axioms"] = true
		e.uf("emb_par", []string{"Int"}, "Int")
		e.uf("emb_fld", []string{"Int"}, "Int")
		e.specDefs = append(e.specDefs, "(assert (forall ((r Int) (j Int)) (! (and (= (emb_par (emb r j)) r) (= (emb_fld (emb r j)) j) (not (= (emb r j) 0))) :pattern ((emb r j)))))")
		e.allocClosureAxioms()
	}
	return fmt.Sprintf("(%s %s %d)", f, ref, fld)
}

func (e *FnEnc) eaddr(base, idx string) string {
	f := e.uf("eaddr", []string{"Int", e.sorter.idxSort()}, "Int")
	if !e.ufs["eaddr_axioms"] {
		e.ufs["eaddr_axioms"] = true
		e.uf("eaddr_base", []string{"Int"}, "Int")
		e.uf("eaddr_idx", []string{"Int"}, e.sorter.idxSort())
		e.specDefs = append(e.specDefs, "(assert (forall ((r Int) (j "+e.sorter.idxSort()+")) (! (and (= (eaddr_base (eaddr r j)) r) (= (eaddr_idx (eaddr r j)) j) (not (= (eaddr r j) 0))) :pattern ((eaddr r j)))))")
		// references that are not element slots have base 0 (eaddr_base/eaddr_idx are the inverse of eaddr on
		// its image and constant outside it): a slot of a fresh array is therefore never an old object
		e.specDefs = append(e.specDefs, "(assert (forall ((r Int)) (! (=> (not (= (eaddr_base r) 0)) (= r (eaddr (eaddr_base r) (eaddr_idx r)))) :pattern ((eaddr_base r)))))")
		// an element slot is allocated at entry exactly when its array is: a fresh object is never an old slot
		e.allocClosureAxioms()
	}
	return "(" + f + " " + base + " " + idx + ")"
}

// loadObj reads a value of type t stored in the object with reference ref.
func (e *FnEnc) loadObj(ref string, t types.Type) Val {
	switch u := t.Underlying().(type) {
	case *types.Struct:
		v := Val{T: t}
		for i := 0; i < u.NumFields(); i++ {
			f := u.Field(i)
			fv := e.loadField(ref, t, i)
			_ = f
			v.L = append(v.L, fv.L...)
		}
		if u.NumFields() == 0 {
			v.L = []string{"0"}
		}
		return v
	case *types.Array:
		v := Val{T: t}
		for _, l := range e.sorter.leaves(u.Elem()) {
			if isAggregateElem(u.Elem()) {
				panic("array of aggregates as value: " + t.String())
			}
			a := e.heapArr(elemArrName(typeName(u.Elem()), l.suffix), e.arrSort2(l.sort))
			v.L = append(v.L, "(select "+a+" "+ref+")")
		}
		return v
	}
	// cell
	v := Val{T: t}
	for _, l := range e.sorter.leaves(t) {
		a := e.heapArr(objArrName("cell:"+typeName(t), l.suffix), e.arrSort1(l.sort))
		v.L = append(v.L, "(select "+a+" "+ref+")")
	}
	return v
}

func isAggregateElem(t types.Type) bool {
	switch t.Underlying().(type) {
	case *types.Struct, *types.Array:
		return true
	}
	return false
}

func (e *FnEnc) loadField(ref string, structT types.Type, i int) Val {
	st := structT.Underlying().(*types.Struct)
	f := st.Field(i)
	if isAggregateElem(f.Type()) {
		return e.loadObj(e.emb(ref, i+1), f.Type())
	}
	v := Val{T: f.Type()}
	for _, l := range e.sorter.leaves(f.Type()) {
		a := e.heapArr(objArrName(e.objT(ref, structT), "."+f.Name()+l.suffix), e.arrSort1(l.sort))
		v.L = append(v.L, "(select "+a+" "+ref+")")
	}
	return v
}

func (e *FnEnc) storeObj(ref string, t types.Type, val Val) {
	switch u := t.Underlying().(type) {
	case *types.Struct:
		for i := 0; i < u.NumFields(); i++ {
			lo, hi := e.sorter.fieldRange(u, i)
			e.storeField(ref, t, i, Val{T: u.Field(i).Type(), L: val.L[lo:hi]})
		}
		return
	case *types.Array:
		for k, l := range e.sorter.leaves(u.Elem()) {
			name := elemArrName(typeName(u.Elem()), l.suffix)
			a := e.heapArr(name, e.arrSort2(l.sort))
			e.setHeap(name, e.arrSort2(l.sort), "(store "+a+" "+ref+" "+val.L[k]+")")
		}
		return
	}
	for k, l := range e.sorter.leaves(t) {
		name := objArrName("cell:"+typeName(t), l.suffix)
		a := e.heapArr(name, e.arrSort1(l.sort))
		e.setHeap(name, e.arrSort1(l.sort), "(store "+a+" "+ref+" "+val.L[k]+")")
	}
}

func (e *FnEnc) storeField(ref string, structT types.Type, i int, val Val) {
	st := structT.Underlying().(*types.Struct)
	f := st.Field(i)
	if isAggregateElem(f.Type()) {
		e.storeObj(e.emb(ref, i+1), f.Type(), val)
		return
	}
	for k, l := range e.sorter.leaves(f.Type()) {
		name := objArrName(e.objT(ref, structT), "."+f.Name()+l.suffix)
		a := e.heapArr(name, e.arrSort1(l.sort))
		e.setHeap(name, e.arrSort1(l.sort), "(store "+a+" "+ref+" "+val.L[k]+")")
	}
}

func (e *FnEnc) loadLoc(l *Loc) Val {
	v := Val{T: l.T}
	for _, lf := range e.sorter.leaves(l.T) {
		switch l.Kind {
		case "field":
			a := e.heapArr(objArrName(l.ObjT, "."+l.Fld+lf.suffix), e.arrSort1(lf.sort))
			v.L = append(v.L, "(select "+a+" "+l.Ref+")")
		case "elem":
			if e.st.epoch == -1 {
				inner := "(Array " + e.sorter.idxSort() + " " + lf.sort + ")"
				if row, ok := e.specRowFor(l.Ref, elemArrName(l.ObjT, lf.suffix), inner); ok {
					if _, known := e.heapSort[elemArrName(l.ObjT, lf.suffix)]; !known {
						e.heapSort[elemArrName(l.ObjT, lf.suffix)] = e.arrSort2(lf.sort)
						e.decl(elemArrName(l.ObjT, lf.suffix), e.arrSort2(lf.sort))
					}
					if l.Rel != "" {
						v.L = append(v.L, e.rowRead(row, inner, l.Off, l.Rel))
					} else {
						v.L = append(v.L, "(select "+row+" "+l.Idx+")")
					}
					continue
				}
			}
			a := e.heapArr(elemArrName(l.ObjT, lf.suffix), e.arrSort2(lf.sort))
			if l.Rel != "" {
				v.L = append(v.L, e.elemRead(a, e.arrSort2(lf.sort), l.Ref, l.Off, l.Rel))
			} else {
				v.L = append(v.L, "(select (select "+a+" "+l.Ref+") "+l.Idx+")")
			}
		case "global":
			a := e.heapArr("G/"+l.ObjT+"/"+lf.suffix, lf.sort)
			v.L = append(v.L, a)
		}
	}
	return v
}

func (e *FnEnc) storeLoc(l *Loc, val Val) {
	for k, lf := range e.sorter.leaves(l.T) {
		switch l.Kind {
		case "field":
			name := objArrName(l.ObjT, "."+l.Fld+lf.suffix)
			a := e.heapArr(name, e.arrSort1(lf.sort))
			e.setHeap(name, e.arrSort1(lf.sort), "(store "+a+" "+l.Ref+" "+val.L[k]+")")
		case "elem":
			name := elemArrName(l.ObjT, lf.suffix)
			a := e.heapArr(name, e.arrSort2(lf.sort))
			e.setHeap(name, e.arrSort2(lf.sort), "(store "+a+" "+l.Ref+" (store (select "+a+" "+l.Ref+") "+l.Idx+" "+val.L[k]+"))")
		case "global":
			name := "G/" + l.ObjT + "/" + lf.suffix
			e.heapArr(name, lf.sort)
			e.setHeap(name, lf.sort, val.L[k])
		}
	}
}

// deref: load through a pointer value
func (e *FnEnc) deref(p Val) Val {
	if p.Loc != nil {
		return e.loadLoc(p.Loc)
	}
	pt := p.T.Underlying().(*types.Pointer)
	return e.loadObj(p.L[0], pt.Elem())
}

func (e *FnEnc) storeThrough(p Val, v Val) {
	if p.Loc != nil {
		e.storeLoc(p.Loc, v)
		return
	}
	pt := p.T.Underlying().(*types.Pointer)
	e.storeObj(p.L[0], pt.Elem(), v)
}

// fieldAddr: pointer to field i of struct pointed to by p
func (e *FnEnc) fieldAddr(p Val, structT types.Type, i int, resT types.Type) Val {
	st := structT.Underlying().(*types.Struct)
	f := st.Field(i)
	if p.Loc != nil {
		panic("fieldAddr on non-object pointer")
	}
	if isAggregateElem(f.Type()) {
		return Val{T: resT, L: []string{e.emb(p.L[0], i+1)}}
	}
	return Val{T: resT, L: []string{""}, Loc: &Loc{Kind: "field", ObjT: e.objT(p.L[0], structT), Fld: f.Name(), Ref: p.L[0], T: f.Type()}}
}

// indexAddr: pointer to element idx (relative) of a slice value or of array with base ref
func (e *FnEnc) elemAddr(base, absIdx string, elT types.Type, resT types.Type) Val {
	if isAggregateElem(elT) {
		return Val{T: resT, L: []string{e.eaddr(base, absIdx)}}
	}
	return Val{T: resT, L: []string{""}, Loc: &Loc{Kind: "elem", ObjT: typeName(elT), Ref: base, Idx: absIdx, T: elT}}
}

// element value of slice s at relative index i
func (e *FnEnc) sliceElem(s Val, i string) Val {
	elT := s.T.Underlying().(*types.Slice).Elem()
	abs := e.idxAdd(s.L[1], i)
	if isAggregateElem(elT) {
		return e.loadObj(e.eaddrRel(s.L[0], s.L[1], i), elT)
	}
	return e.loadLoc(&Loc{Kind: "elem", ObjT: typeName(elT), Ref: s.L[0], Idx: abs, Off: s.L[1], Rel: i, T: elT})
}

// address of element rel of a slice (base, off): relative form kept for trigger-friendly reads
func (e *FnEnc) elemAddrRel(base, off, rel string, elT types.Type, resT types.Type) Val {
	if isAggregateElem(elT) {
		return Val{T: resT, L: []string{e.eaddrRel(base, off, rel)}}
	}
	return Val{T: resT, L: []string{""}, Loc: &Loc{Kind: "elem", ObjT: typeName(elT), Ref: base, Idx: e.idxAdd(off, rel), Off: off, Rel: rel, T: elT}}
}

func (e *FnEnc) idxAdd(a, b string) string {
	if e.sorter.mode == ModeBV {
		if a == bvLit(0, 64) {
			return b
		}
		return "(bvadd " + a + " " + b + ")"
	}
	if a == "0" {
		return b
	}
	if b == "0" {
		return a
	}
	return "(+ " + a + " " + b + ")"
}
func (e *FnEnc) idxSub(a, b string) string {
	if e.sorter.mode == ModeBV {
		return "(bvsub " + a + " " + b + ")"
	}
	if b == "0" {
		return a
	}
	return "(- " + a + " " + b + ")"
}
func (e *FnEnc) idxLe(a, b string) string {
	if e.sorter.mode == ModeBV {
		return "(bvsle " + a + " " + b + ")"
	}
	return "(<= " + a + " " + b + ")"
}
func (e *FnEnc) idxLt(a, b string) string {
	if e.sorter.mode == ModeBV {
		return "(bvslt " + a + " " + b + ")"
	}
	return "(< " + a + " " + b + ")"
}
func (e *FnEnc) idxConst(n int64) string {
	if e.sorter.mode == ModeBV {
		return bvLit(n, 64)
	}
	return fmt.Sprint(n)
}

// ---------- value helpers ----------

func (e *FnEnc) freshVal(prefix string, t types.Type) Val {
	v := Val{T: t}
	base := e.fresh(prefix)
	for _, l := range e.sorter.leaves(t) {
		n := e.decl(base+l.suffix, l.sort)
		v.L = append(v.L, n)
	}
	return v
}

// type-derived facts about an unconstrained value (ranges, slice shape)
func (e *FnEnc) typeFacts(v Val) string {
	if v.T == nil {
		return "true"
	}
	var fs []string
	ls := e.sorter.leaves(v.T)
	for i, l := range ls {
		if i >= len(v.L) {
			break
		}
		if l.t != nil && l.sort != "Bool" {
			if r := e.sorter.rangeOf(v.L[i], l.t); r != "" {
				fs = append(fs, r)
			}
		}
		if strings.HasSuffix(l.suffix, "#off") && i+2 < len(v.L) {
			off, ln, cp := v.L[i], v.L[i+1], v.L[i+2]
			z := e.idxConst(0)
			fs = append(fs, e.idxLe(z, off), e.idxLe(z, ln), e.idxLe(ln, cp))
			if e.sorter.mode == ModeBV {
				fs = append(fs, "(bvsle "+cp+" "+bvLit(1<<40, 64)+")", "(bvsle "+off+" "+bvLit(1<<40, 64)+")")
			} else {
				fs = append(fs, "(<= "+cp+" 1099511627776)", "(<= "+off+" 1099511627776)")
			}
			// nil slice has len 0
			fs = append(fs, simp(seq(v.L[i-1], "0"), sand(seq(cp, z), seq(off, z))))
		}
	}
	if isStringType(v.T) && len(v.L) == 1 {
		fs = append(fs, e.strLenFacts(v.L[0]))
	}
	return sand(fs...)
}

func (e *FnEnc) strLen(s string) string {
	first := !e.ufs["str_len"]
	f := e.uf("str_len", []string{"Int"}, e.sorter.idxSort())
	if first && !e.ufs["str_len"] {
		first = false
	}
	if first {
		if _, ok := e.strLits[""]; !ok {
			e.strLit("")
		}
	}
	return "(" + f + " " + s + ")"
}
func (e *FnEnc) strAt(s, i string) string {
	f := e.uf("str_at", []string{"Int", e.sorter.idxSort()}, e.sorter.intSort(tByte))
	return "(" + f + " " + s + " " + i + ")"
}
func (e *FnEnc) strLenFacts(s string) string {
	l := e.strLen(s)
	return sand(e.idxLe(e.idxConst(0), l), e.idxLe(l, e.idxConst(1<<40)))
}

func (e *FnEnc) strLit(s string) string {
	if id, ok := e.strLits[s]; ok {
		return id
	}
	// distinct negative ids for literals; empty string is 0... keep "" = id -1 too (nil has no meaning for strings)
	id := fmt.Sprintf("(- %d)", len(e.strLits)+1)
	if s == "" {
		// the empty string is id 0, so that zero values of strings nested in structs and arrays are ""
		id = "0"
	}
	e.strLits[s] = id
	e.specDefs = append(e.specDefs, fmt.Sprintf("(assert (= %s %s))", e.strLen(id), e.idxConst(int64(len(s)))))
	if len(s) <= 64 {
		for i := 0; i < len(s); i++ {
			e.specDefs = append(e.specDefs, fmt.Sprintf("(assert (= %s %s))", e.strAt(id, e.idxConst(int64(i))), e.sorter.constInt(bigInt(int64(s[i])), tByte)))
		}
	}
	return id
}

// string equality is identity of ids, made extensional by this axiom (declared once)
func (e *FnEnc) strExtensionality() {
	if e.ufs["str_ext"] {
		return
	}
	e.ufs["str_ext"] = true
	e.strLen("0")
	e.strAt("0", e.idxConst(0))
	ix := e.sorter.idxSort()
	z := e.idxConst(0)
	e.specDefs = append(e.specDefs, fmt.Sprintf("(assert (forall ((a Int) (b Int)) (! (=> (and (= (str_len a) (str_len b)) (forall ((k %s)) (=> (and %s %s) (= (str_at a k) (str_at b k))))) (= a b)) :pattern ((str_len a) (str_len b)))))",
		ix, e.idxLe(z, "k"), e.idxLt("k", "(str_len a)")))
}

func (e *FnEnc) zeroVal(t types.Type) Val {
	v := Val{T: t}
	for _, l := range e.sorter.leaves(t) {
		v.L = append(v.L, e.sorter.zeroLeaf(l))
	}
	if isStringType(t) {
		v.L[0] = e.strLit("")
	}
	return v
}

func (e *FnEnc) iteVal(c string, a, b Val) Val {
	if a.Loc != nil || b.Loc != nil {
		panic("unsupported: interior pointer flows into a join")
	}
	v := Val{T: a.T}
	if v.T == nil {
		v.T = b.T
	}
	for i := range a.L {
		v.L = append(v.L, site(c, a.L[i], b.L[i]))
	}
	return v
}

func (e *FnEnc) nameVal(name string, v Val) Val {
	if v.Loc != nil || v.T == nil {
		return v
	}
	out := Val{T: v.T}
	for i, l := range e.sorter.leaves(v.T) {
		if i >= len(v.L) {
			break
		}
		t := v.L[i]
		if len(t) < 24 {
			out.L = append(out.L, t)
			continue
		}
		out.L = append(out.L, e.define(name+l.suffix, l.sort, t))
	}
	return out
}

func bigInt(v int64) *big.Int { return big.NewInt(v) }

// ---------- loops ----------

func (e *FnEnc) findLoops() error {
	fn := e.fn
	e.loops = map[*ssa.BasicBlock]*loopInfo{}
	e.backEdge = map[[2]*ssa.BasicBlock]bool{}
	for _, b := range fn.Blocks {
		for _, s := range b.Succs {
			if s.Dominates(b) {
				e.backEdge[[2]*ssa.BasicBlock{b, s}] = true
				li := e.loops[s]
				if li == nil {
					li = &loopInfo{header: s, blocks: map[*ssa.BasicBlock]bool{s: true}}
					e.loops[s] = li
				}
				li.backs = append(li.backs, b)
				// natural loop: all blocks that reach b without passing through s
				stack := []*ssa.BasicBlock{b}
				for len(stack) > 0 {
					x := stack[len(stack)-1]
					stack = stack[:len(stack)-1]
					if li.blocks[x] {
						continue
					}
					li.blocks[x] = true
					stack = append(stack, x.Preds...)
				}
			}
		}
	}
	var hs []*ssa.BasicBlock
	for h := range e.loops {
		hs = append(hs, h)
	}
	sort.Slice(hs, func(i, j int) bool {
		pi, pj := e.loopPos(hs[i]), e.loopPos(hs[j])
		if pi != pj {
			return pi < pj
		}
		return hs[i].Index < hs[j].Index
	})
	for i, h := range hs {
		e.loops[h].ordinal = i + 1
	}
	return nil
}

// source position of a loop: smallest instruction position in its body blocks; falls back on block index
func (e *FnEnc) loopPos(h *ssa.BasicBlock) int {
	best := token.Pos(0)
	for b := range e.loops[h].blocks {
		for _, in := range b.Instrs {
			if _, ok := in.(*ssa.DebugRef); ok {
				continue
			}
			if _, ok := in.(*ssa.Phi); ok {
				continue // a phi carries the position of the variable's declaration, which may precede the loop
			}
			if p := in.Pos(); p.IsValid() && (best == 0 || p < best) {
				best = p
			}
		}
	}
	if best == 0 {
		return 1<<40 + h.Index
	}
	return int(best)
}


package main

// Bounded stand-ins.
//
// Where a function a property depends on cannot be brought under a discharged contract (see DESIGN.md), a
// bounded exhaustive run of the REAL function against an executable oracle may stand in. Such runs are
// registered in /verif/bounded/index.json, live as in-package Go tests under /verif/bounded/ (injected with
// `go test -overlay`, nothing is written to /repo), are always labelled "bounded" in the evidence with their
// bound, and are never counted among the discharged obligations.
//
// Protocol of a bounded test (stdout lines):
//   BOUNDED-CASES n=<cases run> distinct=<distinct non-trivial cases> bound=<text>
//   BOUNDED-SAMPLE <a case, written out>
//   BOUNDED-FAIL id=<stable id of the failing case> :: <what fails, with the input>

import (
	"encoding/json"
	"fmt"
	"os"
	"os/exec"
	"path/filepath"
	"regexp"
	"strconv"
	"strings"
	"time"
)

type boundedSpec struct {
	Prop      string `json:"prop"`
	Name      string `json:"name"`
	Pkg       string `json:"pkg"`  // directory below the repository root
	File      string `json:"file"` // below /verif/bounded
	Test      string `json:"test"`
	StandsFor string `json:"stands_for"`
	Bound     string `json:"bound"`
	Role      string `json:"role"` // "" = stands in for an unproved part (the claim is exploration); "cross-check" = the part is proved, the run only cross-checks it
}

type boundedFail struct{ ID, Text string }

type boundedResult struct {
	Spec     boundedSpec
	Cases    int
	Distinct int
	Bound    string
	Samples  []string
	Fails    []boundedFail
	Err      string
	Secs     float64
	Output   string
}

func loadBounded(prop string) []boundedSpec {
	b, err := os.ReadFile(filepath.Join(verifDir, "bounded", "index.json"))
	if err != nil {
		return nil
	}
	var all []boundedSpec
	if err := json.Unmarshal(b, &all); err != nil {
		fmt.Fprintln(os.Stderr, "bounded/index.json:", err)
		return nil
	}
	var out []boundedSpec
	for _, s := range all {
		if s.Prop == prop {
			out = append(out, s)
		}
	}
	return out
}

var reCases = regexp.MustCompile(`^BOUNDED-CASES n=(\d+) distinct=(\d+) bound=(.*)$`)
var reFail = regexp.MustCompile(`^BOUNDED-FAIL id=(.+?) :: (.*)$`)

func runBounded(s boundedSpec, tier string, seed int64) boundedResult {
	r := boundedResult{Spec: s}
	t0 := time.Now()
	tmp, _ := os.MkdirTemp("", "govc-bounded-")
	defer os.RemoveAll(tmp)
	target := filepath.Join(repoDir, s.Pkg, "zz_govc_bounded_"+s.Name+"_test.go")
	ov, _ := json.Marshal(map[string]interface{}{"Replace": map[string]string{target: filepath.Join(verifDir, "bounded", s.File)}})
	ovf := filepath.Join(tmp, "ov.json")
	os.WriteFile(ovf, ov, 0o644)
	timeout := "240s"
	if tier == "thorough" {
		timeout = "1500s"
	}
	cmd := exec.Command("go", "test", "-overlay", ovf, "-vet=off", "-count=1", "-timeout", timeout, "-run", "^"+s.Test+"$", "-v", "./"+s.Pkg+"/")
	cmd.Dir = repoDir
	cmd.Env = append(os.Environ(), "GOFLAGS=-mod=mod", "GOPROXY=off", "GOSUMDB=off", "GOTOOLCHAIN=local", "GOVC_BOUNDED_TIER="+tier, "GOVC_BOUNDED_SEED="+strconv.FormatInt(seed, 10))
	out, _ := cmd.CombinedOutput()
	r.Secs = time.Since(t0).Seconds()
	r.Output = string(out)
	seen := false
	for _, ln := range strings.Split(r.Output, "\n") {
		ln = strings.TrimSpace(ln)
		if m := reCases.FindStringSubmatch(ln); m != nil {
			seen = true
			r.Cases, _ = strconv.Atoi(m[1])
			r.Distinct, _ = strconv.Atoi(m[2])
			r.Bound = m[3]
		} else if m := reFail.FindStringSubmatch(ln); m != nil {
			if len(r.Fails) < 40 {
				r.Fails = append(r.Fails, boundedFail{strings.ReplaceAll(m[1], " ", "_"), m[2]})
			}
		} else if strings.HasPrefix(ln, "BOUNDED-FAIL") {
			// a failure line the harness printed in an unexpected shape is still a failure
			if len(r.Fails) < 40 {
				r.Fails = append(r.Fails, boundedFail{"unparsed", ln})
			}
		} else if strings.HasPrefix(ln, "BOUNDED-SAMPLE ") && len(r.Samples) < 4 {
			r.Samples = append(r.Samples, ln[len("BOUNDED-SAMPLE "):])
		}
	}
	if !seen {
		r.Err = "the bounded harness did not complete (build failure, panic outside the harness' recover, or timeout); output:\n" + trimOutN(r.Output, 1500)
	}
	return r
}

func writeBoundedReplay(prop string, r boundedResult, f boundedFail) string {
	dir := filepath.Join(verifDir, "replay", prop)
	os.MkdirAll(dir, 0o755)
	p := filepath.Join(dir, sanitizeFile("bounded_"+r.Spec.Name+"_"+f.ID)+".txt")
	var sb strings.Builder
	fmt.Fprintf(&sb, "property: %s\nobligation: bounded:%s#%s\nkind: bounded stand-in (%s)\nstands for: %s\nbound: %s\n\nfailing case (run on the real code): %s\n\nreproduce: cd /repo && go test -overlay <{\"Replace\":{\"%s/%s/zz_govc_bounded_%s_test.go\":\"%s/bounded/%s\"}}> -vet=off -run '^%s$' -v ./%s/\n",
		prop, r.Spec.Name, f.ID, r.Spec.Test, r.Spec.StandsFor, r.Bound, f.Text, repoDir, r.Spec.Pkg, r.Spec.Name, verifDir, r.Spec.File, r.Spec.Test, r.Spec.Pkg)
	os.WriteFile(p, []byte(sb.String()), 0o644)
	return p
}

package main

import (
	"fmt"
	"go/token"
)

func tokenPos(i int) token.Pos { return token.Pos(i) }

// encodeLemma: a closed formula over spec functions: hyps ==> concl, for all params.
func encodeLemma(prog *Program, l *Lemma) (obls []*Obligation, err error) {
	c := &FuncContract{Key: "lemma:" + l.Name, PkgPath: l.PkgPath, Props: l.Props, Arith: l.Arith, Loops: map[int]*LoopSpec{}, Opaque: map[string]string{}}
	e := newFnEnc(prog, nil, c)
	e.pkg = prog.typesPkg(l.PkgPath)
	e.reset()
	e.pass = 2
	e.curGuard = "true"
	defer func() {
		if r := recover(); r != nil {
			if u, ok := r.(unsupported); ok {
				err = fmt.Errorf("%s", u.msg)
				return
			}
			if u, ok := r.(specErr); ok {
				err = fmt.Errorf("%s", u.msg)
				return
			}
			panic(r)
		}
	}()
	env := &specEnv{e: e, vars: map[string]Val{}, st: e.st0, old: e.st0, pkg: e.pkg}
	for _, p := range l.Params {
		t := env.resolveType(p.Typ)
		v := e.freshParam("p_"+p.Name, t)
		env.vars[p.Name] = v
		e.assert(e.typeFacts(v))
	}
	for _, h := range l.Hyps {
		e.assert(e.evalBool(h.E, env, h))
	}
	e.flushFacts()
	for _, cl := range l.Concl {
		t := e.evalBool(cl.E, env, cl)
		e.flushFacts()
		lbl := cl.Label
		if lbl == "" {
			lbl = shortLabel(cl.Src)
		}
		e.oblige("lemma", lbl, t, token.NoPos)
	}
	return e.obls, nil
}

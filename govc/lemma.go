package main

import (
	"fmt"
	"go/token"
	"go/types"
	"strings"
)

func tokenPos(i int) token.Pos { return token.Pos(i) }

// encodeLemma: a ghost client program over contracts and spec functions:
//   params ...; hyp P (assumed); call [x :=] f(args) (callee contract applied: requires become
//   obligations, modifies havocked, ensures assumed); concl Q (obligation).
func encodeLemma(prog *Program, l *Lemma) (obls []*Obligation, err error) {
	c := &FuncContract{Key: "lemma:" + l.Name, PkgPath: l.PkgPath, Props: l.Props, Arith: l.Arith, Loops: map[int]*LoopSpec{}, Opaque: map[string]string{}}
	e := newFnEnc(prog, nil, c)
	e.pkg = prog.typesPkg(l.PkgPath)
	e.reset()
	e.pass = 2
	e.curGuard = "true"
	defer func() {
		if r := recover(); r != nil {
			if u, ok := r.(unsupported); ok {
				err = fmt.Errorf("%s", u.msg)
				return
			}
			if u, ok := r.(specErr); ok {
				err = fmt.Errorf("%s", u.msg)
				return
			}
			panic(r)
		}
	}()
	vars := map[string]Val{}
	mkEnv := func() *specEnv { return &specEnv{e: e, vars: vars, st: e.st, old: e.st0, pkg: e.pkg} }
	env := mkEnv()
	allocArr := e.heapArr("$alloc", "(Array Int Bool)")
	for _, p := range l.Params {
		t := env.resolveType(p.Typ)
		v := e.freshParam("p_"+p.Name, t)
		vars[p.Name] = v
		e.params[p.Name] = v
		e.assert(e.typeFacts(v))
		e.assert(e.allocatedFacts(v, allocArr))
	}
	for _, st := range l.Steps {
		env = mkEnv()
		switch st.Kind {
		case "hyp":
			e.assert(e.evalBool(st.E, env, st))
			e.flushFacts()
		case "concl":
			t := e.evalBool(st.E, env, st)
			e.flushFacts()
			lbl := st.Label
			if lbl == "" {
				lbl = shortLabel(st.Src)
			}
			e.oblige("lemma", lbl, t, token.NoPos)
		case "call":
			call, ok := st.E.(*ECall)
			if !ok {
				return nil, fmt.Errorf("%s:%d: call step must be a call expression", st.File, st.Line)
			}
			var args []Val
			var argTs []types.Type
			key := call.Fun
			if i := strings.LastIndex(call.Fun, "."); i > 0 {
				// method call x.m(...)
				rx, perr := ParseExpr(call.Fun[:i])
				if perr != nil {
					return nil, perr
				}
				rv := env.eval(rx)
				args = append(args, rv)
				argTs = append(argTs, rv.T)
				tn := ""
				ptr := ""
				t := rv.T
				if p, isP := t.(*types.Pointer); isP {
					t = p.Elem()
					ptr = "*"
				}
				if n, isN := t.(*types.Named); isN {
					tn = n.Obj().Name()
				}
				key = "(" + ptr + tn + ")." + call.Fun[i+1:]
			}
			fn, ferr := prog.findFunc(l.PkgPath, key)
			if ferr != nil {
				return nil, ferr
			}
			cc := prog.contract(l.PkgPath, key)
			if cc == nil {
				return nil, fmt.Errorf("%s:%d: %s has no contract", st.File, st.Line, key)
			}
			sig := fn.Signature
			for i, a := range call.Args {
				v := env.eval(a)
				pt := sig.Params().At(i).Type()
				v = env.typed(v, pt)
				if v.T == nil && len(v.L) == 1 && v.L[0] == "0" {
					v = e.zeroVal(pt)
				}
				args = append(args, v)
				argTs = append(argTs, pt)
			}
			var resT types.Type = sig.Results()
			if sig.Results().Len() == 1 {
				resT = sig.Results().At(0).Type()
			}
			res := e.applyContract(cc, l.PkgPath[strings.LastIndex(l.PkgPath, "/")+1:]+"."+key, e.pkg, sigParamNames(sig), args, argTs, sig, nil, resT, token.NoPos)
			if st.Label != "" && res != nil {
				if sig.Results().Len() == 1 {
					vars[st.Label] = *res
				} else {
					for i := 0; i < sig.Results().Len(); i++ {
						lo, hi := e.sorter.tupleRange(sig.Results(), i)
						vars[fmt.Sprintf("%s%d", st.Label, i)] = Val{T: sig.Results().At(i).Type(), L: res.L[lo:hi]}
					}
				}
			}
		}
	}
	return e.obls, nil
}

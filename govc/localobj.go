package main

import (
	"go/types"
	"strings"
)

// Stack-allocated struct values that do not escape (go/ssa Alloc with Heap == false) live in their own
// field arrays ("H/local:<alloc>:T/..."), so copying a struct into a local (e.g. `for _, r := range rs`)
// does not count as a write to the heap arrays of T and cannot disturb facts about other objects.
func (e *FnEnc) objT(ref string, t types.Type) string {
	if len(e.localObjs) > 0 {
		root := ref
		for strings.HasPrefix(root, "(emb ") {
			root = strings.TrimPrefix(root, "(emb ")
			if i := strings.LastIndex(root, " "); i > 0 {
				root = root[:i]
			}
		}
		if cls, ok := e.localObjs[root]; ok {
			return "local:" + cls + ":" + typeName(t)
		}
	}
	return typeName(t)
}

package main

import (
	"fmt"
	"go/constant"
	"go/token"
	"go/types"
	"math/big"
	"os"
	"sort"
	"strings"

	"golang.org/x/tools/go/ssa"
)

type unsupported struct{ msg string }

func unsup(f string, a ...interface{}) { panic(unsupported{fmt.Sprintf(f, a...)}) }

func newFnEnc(prog *Program, fn *ssa.Function, c *FuncContract) *FnEnc {
	e := &FnEnc{prog: prog, fn: fn, c: c, key: c.PkgName() + "." + c.Key}
	if c.Arith == "bv" {
		e.sorter = sorter{ModeBV}
	}
	if fn != nil && fn.Pkg != nil {
		e.pkg = fn.Pkg.Pkg
	}
	return e
}

func (c *FuncContract) PkgName() string {
	if i := strings.LastIndex(c.PkgPath, "/"); i >= 0 {
		return c.PkgPath[i+1:]
	}
	return c.PkgPath
}

func (e *FnEnc) reset() {
	e.decls, e.asserts, e.obls = nil, nil, nil
	e.declared = map[string]string{}
	e.heapSort = map[string]string{}
	e.vals = map[ssa.Value]Val{}
	e.guard = map[*ssa.BasicBlock]string{}
	e.outState = map[*ssa.BasicBlock]*State{}
	e.params = map[string]Val{}
	e.rets = nil
	e.ufs = map[string]bool{}
	e.specDefs = nil
	e.specDone = map[string]*specSig{}
	e.strLits = map[string]string{}
	e.oblNames = map[string]int{}
	e.nfresh, e.nepoch = 0, 0
	e.st0 = &State{heap: map[string]string{}}
	e.st = e.st0.clone()
	e.deferred = nil
	e.modAllowed, e.modAllowedDone = nil, false
	e.localObjs = nil
	e.privCells = nil
	e.symCache = nil
	e.loopPre = map[*loopInfo]*State{}
	if e.assumptions == nil {
		e.assumptions = map[string]bool{}
	}
}

// Encode runs two passes (pass 1 collects loop write sets) and returns the obligations.
func (e *FnEnc) Encode() (err error) {
	defer func() {
		if r := recover(); r != nil {
			if u, ok := r.(unsupported); ok {
				err = fmt.Errorf("%s: outside the supported subset: %s", e.key, u.msg)
				return
			}
			panic(r)
		}
	}()
	if len(e.fn.Blocks) == 0 {
		return fmt.Errorf("%s: no body", e.key)
	}
	e.reset()
	if e.fn.Recover != nil {
		e.note(e.key + ": function has deferred calls (run at every return; panics/recover are not modelled)")
	}
	if err := e.findLoops(); err != nil {
		return err
	}
	for n := range e.c.Loops {
		found := false
		for _, li := range e.loops {
			if li.ordinal == n {
				found = true
			}
		}
		if !found {
			// the code's loop structure no longer matches the contract: the invariants of that loop cannot
			// be placed, so the proof does not transfer; reported as a failed (structural) obligation
			e.structural = append(e.structural, fmt.Sprintf("contract gives invariants for loop %d but the function now has %d loops: the inductive argument proved on the unchanged tree no longer applies to this code", n, len(e.loops)))
		}
	}
	e.pass = 1
	e.encodeBody()
	saved := e.loops
	e.reset()
	e.loops = saved
	e.pass = 2
	e.resolveAsserts()
	e.encodeBody()
	for i, s := range e.structural {
		e.obls = append(e.obls, &Obligation{Name: fmt.Sprintf("%s#contract-structure[%d]", e.key, i+1), Kind: "structure", Props: e.c.Props, Fn: e.key, Backend: "syntactic-scan", Status: "failed", Output: s, enc: e})
	}
	return nil
}

func (e *FnEnc) rpo() []*ssa.BasicBlock {
	seen := map[*ssa.BasicBlock]bool{}
	var post []*ssa.BasicBlock
	var dfs func(b *ssa.BasicBlock)
	dfs = func(b *ssa.BasicBlock) {
		seen[b] = true
		for _, s := range b.Succs {
			if e.backEdge[[2]*ssa.BasicBlock{b, s}] {
				continue
			}
			if !seen[s] {
				dfs(s)
			}
		}
		post = append(post, b)
	}
	dfs(e.fn.Blocks[0])
	for i, j := 0, len(post)-1; i < j; i, j = i+1, j-1 {
		post[i], post[j] = post[j], post[i]
	}
	return post
}

func (e *FnEnc) edgeCond(p, b *ssa.BasicBlock) string {
	g := e.guard[p]
	if len(p.Instrs) > 0 {
		if iff, ok := p.Instrs[len(p.Instrs)-1].(*ssa.If); ok {
			c := e.val(iff.Cond).L[0]
			if p.Succs[0] == b && p.Succs[1] == b {
				return g
			}
			if p.Succs[0] == b {
				return sand(g, c)
			}
			return sand(g, snot(c))
		}
	}
	return g
}

func (e *FnEnc) encodeBody() {
	fn := e.fn
	// parameters
	e.curGuard = "true"
	e.curBlock = fn.Blocks[0]
	allocArr := e.heapArr("$alloc", "(Array Int Bool)")
	for _, p := range fn.Params {
		v := e.freshParam("p_"+p.Name(), p.Type())
		e.vals[p] = v
		e.params[p.Name()] = v
		e.assert(e.typeFacts(v))
		e.assert(e.allocatedFacts(v, allocArr))
	}
	for _, fv := range fn.FreeVars {
		v := e.freshParam("fv_"+fv.Name(), fv.Type())
		e.vals[fv] = v
		if e.fvPtrs == nil {
			e.fvPtrs = map[string]Val{}
		}
		e.fvPtrs[fv.Name()] = v
		e.assert(e.typeFacts(v))
		e.assert(sand(snot(seq(v.L[0], "0")), "(select "+allocArr+" "+v.L[0]+")"))
	}
	e.assert("(not (select " + allocArr + " 0))")
	e.assumePkgInvariants()
	if e.skipPkgInv && fn.Pkg != nil {
		// encoding a package's synthetic init to establish its invariants: it has not run yet
		e.assert(snot(e.heapArr("G/"+fn.Pkg.Pkg.Name()+".init$guard/", "Bool")))
	}
	// preconditions
	env := e.entryEnv()
	env.atEntry = true
	for _, r := range e.c.Requires {
		t := e.evalBool(r.E, env, r)
		e.assert(t)
	}
	env.atEntry = false
	e.flushFacts()
	// type invariants of receiver/params assumed at entry: (handled via requires for now)

	order := e.rpo()
	for _, b := range order {
		e.encodeBlock(b)
	}
	e.encodeExit()
}

func (e *FnEnc) freshParam(name string, t types.Type) Val {
	v := Val{T: t}
	for _, l := range e.sorter.leaves(t) {
		v.L = append(v.L, e.decl(name+l.suffix, l.sort))
	}
	return v
}

// refs in v are allocated (or nil)
func (e *FnEnc) allocatedFacts(v Val, allocArr string) string {
	if v.T == nil {
		return "true"
	}
	var fs []string
	for i, l := range e.sorter.leaves(v.T) {
		if i >= len(v.L) {
			break
		}
		if l.sort == "Int" && l.t == nil && (l.suffix == "" || strings.HasSuffix(l.suffix, "#base")) && !isStringType(v.T) {
			switch v.T.Underlying().(type) {
			case *types.Pointer, *types.Slice, *types.Map:
				fs = append(fs, sor(seq(v.L[i], "0"), "(select "+allocArr+" "+v.L[i]+")"), "(>= "+v.L[i]+" 0)")
			}
		}
	}
	return sand(fs...)
}

func (e *FnEnc) encodeBlock(b *ssa.BasicBlock) {
	e.curBlock = b
	li := e.loops[b]
	// incoming edges
	type inEdge struct {
		pred *ssa.BasicBlock
		idx  int
		cond string
	}
	var ins, backs []inEdge
	for i, p := range b.Preds {
		if e.backEdge[[2]*ssa.BasicBlock{p, b}] {
			backs = append(backs, inEdge{p, i, ""})
			continue
		}
		if _, ok := e.guard[p]; !ok {
			continue // unreachable predecessor
		}
		ins = append(ins, inEdge{p, i, e.edgeCond(p, b)})
	}
	g := "true"
	if b.Index != 0 {
		var cs []string
		for _, in := range ins {
			cs = append(cs, in.cond)
		}
		g = e.define(fmt.Sprintf("bb%d", b.Index), "Bool", sor(cs...))
	}
	e.guard[b] = g
	e.curGuard = g
	// merge states
	if b.Index != 0 {
		if len(ins) == 0 {
			e.st = &State{heap: map[string]string{}}
		} else if len(ins) == 1 {
			e.st = e.outState[ins[0].pred].clone()
		} else {
			// choose the max epoch; arrays: ite chain
			names := map[string]bool{}
			maxEpoch := 0
			for _, in := range ins {
				s := e.outState[in.pred]
				for k := range s.heap {
					names[k] = true
				}
				if s.epoch > maxEpoch {
					maxEpoch = s.epoch
				}
			}
			diffEpoch := false
			for _, in := range ins {
				if e.outState[in.pred].epoch != maxEpoch {
					diffEpoch = true
				}
			}
			if diffEpoch {
				// some path havocked everything: every known array must be merged explicitly
				for k := range e.heapSort {
					names[k] = true
				}
				e.nepoch++
				maxEpoch = e.nepoch
				e.note("join after a heap-havocking call: arrays first used after the join are unconstrained")
			}
			ns := &State{heap: map[string]string{}, epoch: maxEpoch}
			for _, k := range sortedKeys(names) {
				first := e.heapIn(e.outState[ins[0].pred], k)
				same := true
				for _, in := range ins[1:] {
					if e.heapIn(e.outState[in.pred], k) != first {
						same = false
					}
				}
				if same {
					if first != quoteSym(k) || maxEpoch != 0 {
						ns.heap[k] = first
					}
					continue
				}
				t := e.heapIn(e.outState[ins[len(ins)-1].pred], k)
				for i := len(ins) - 2; i >= 0; i-- {
					t = site(ins[i].cond, e.heapIn(e.outState[ins[i].pred], k), t)
				}
				ns.heap[k] = e.define(e.fresh(k), e.heapSort[k], t)
			}
			e.st = ns
		}
	}
	// phis
	var phis []*ssa.Phi
	for _, in := range b.Instrs {
		if p, ok := in.(*ssa.Phi); ok {
			phis = append(phis, p)
		}
	}
	if li == nil {
		for _, p := range phis {
			var v Val
			for i := len(ins) - 1; i >= 0; i-- {
				x := e.val(p.Edges[ins[i].idx])
				x = e.coerce(x, p.Type())
				if i == len(ins)-1 {
					v = x
				} else {
					v = e.iteVal(ins[i].cond, x, v)
				}
			}
			if len(ins) == 0 {
				v = e.freshVal("phi", p.Type())
			}
			e.vals[p] = e.nameVal(fmt.Sprintf("%s_%s", p.Name(), p.Comment), v)
		}
	} else {
		// loop header: init obligations, havoc, assume invariant
		spec := e.c.Loops[li.ordinal]
		entryVals := map[*ssa.Phi]Val{}
		for _, p := range phis {
			var v Val
			for i := len(ins) - 1; i >= 0; i-- {
				x := e.coerce(e.val(p.Edges[ins[i].idx]), p.Type())
				if i == len(ins)-1 {
					v = x
				} else {
					v = e.iteVal(ins[i].cond, x, v)
				}
			}
			entryVals[p] = v
		}
		if spec != nil && e.pass == 2 {
			env := e.pointEnv(b, entryVals, nil)
			for _, c := range spec.Invs {
				t := e.evalLoopInv(c, env, li.ordinal)
				e.flushFacts()
				e.oblige(fmt.Sprintf("loop%d.inv.init", li.ordinal), c.Label, t, token.NoPos)
			}
		}
		// havoc
		preState := e.st.clone()
		if e.pass == 2 && os.Getenv("GOVC_DEBUG") != "" {
			fmt.Fprintf(os.Stderr, "loop %d of %s: modAll=%v writes %v\n", li.ordinal, e.key, li.modAll, sortedKeys(li.mods))
		}
		if e.pass == 2 {
			if li.modAll {
				e.havocAll()
			} else {
				for _, k := range sortedKeys(li.mods) {
					if _, ok := e.heapSort[k]; !ok {
						continue // array first used inside the loop: its pre-state name is its current value
					}
					if k == "$alloc" {
						e.growAlloc() // the allocation set only grows
						continue
					}
					e.havocHeap(k)
				}
			}
		}
		for _, p := range phis {
			v := e.freshVal(fmt.Sprintf("%s_%s", p.Name(), p.Comment), p.Type())
			e.vals[p] = v
			e.assume(e.typeFacts(v))
		}
		if spec != nil && e.pass == 2 {
			env := e.pointEnv(b, nil, preState)
			for _, c := range spec.Invs {
				t := e.evalLoopInv(c, env, li.ordinal)
				e.flushFacts()
				e.assume(t)
			}
		}
		e.loopPre[li] = preState
		if e.pass == 2 {
			e.loopFrame(li, preState, true)
			e.autoCounterInvariants(li, phis, entryVals)
		}
	}
	for idx, in := range b.Instrs {
		if _, ok := in.(*ssa.Phi); ok {
			continue
		}
		e.curIdx = idx
		e.assertsAt(b, idx, in)
		e.encodeInstr(in)
		e.flushFacts()
	}
	e.outState[b] = e.st
	// back edges leaving this block: preserve obligations
	for _, s := range b.Succs {
		if !e.backEdge[[2]*ssa.BasicBlock{b, s}] {
			continue
		}
		sli := e.loops[s]
		spec := e.c.Loops[sli.ordinal]
		if e.pass == 2 {
			saveG := e.curGuard
			e.curGuard = e.edgeCond(b, s)
			e.loopFrame(sli, e.loopPre[sli], false)
			e.autoCounterPreserve(sli, b)
			e.curGuard = saveG
		}
		if spec == nil || e.pass != 2 {
			continue
		}
		idx := -1
		for i, p := range s.Preds {
			if p == b {
				idx = i
			}
		}
		over := map[*ssa.Phi]Val{}
		for _, in := range s.Instrs {
			if p, ok := in.(*ssa.Phi); ok {
				over[p] = e.coerce(e.val(p.Edges[idx]), p.Type())
			}
		}
		saveG := e.curGuard
		e.curGuard = e.edgeCond(b, s)
		env := e.pointEnv(s, over, e.loopPre[sli])
		for _, c := range spec.Invs {
			t := e.evalLoopInv(c, env, sli.ordinal)
			e.flushFacts()
			e.oblige(fmt.Sprintf("loop%d.inv.preserve", sli.ordinal), c.Label, t, token.NoPos)
		}
		e.curGuard = saveG
	}
}

// clauseCannotBePlaced: the clause was written (and proved) against the unchanged code; on the code at hand it
// names something that is not there any more or has another shape - a vanished variable or field, a loop that
// no longer ranges over a map, a value of another type.
func clauseCannotBePlaced(msg string) bool {
	if !strings.Contains(msg, "contract expression") {
		return false
	}
	for _, pat := range []string{"unknown identifier", ": no field ", "visited(k) outside", "cannot select", "is not a pointer", "not a slice", "not a map", "indexing", "wrong shape", "not a struct"} {
		if strings.Contains(msg, pat) {
			return true
		}
	}
	return false
}

// evalPlaced evaluates a contract clause on the current code. A clause that names a struct field or a variable
// the code no longer has cannot be placed (what was proved on the unchanged tree does not transfer): that is a
// failed structural obligation, reported like any other violation, instead of an engine error for the whole check.
func (e *FnEnc) evalPlaced(c *Clause, env *specEnv, what string) (res string, placed bool) {
	defer func() {
		if r := recover(); r != nil {
			if u, ok := r.(unsupported); ok && clauseCannotBePlaced(u.msg) {
				e.structural = append(e.structural, fmt.Sprintf("%s [%s] cannot be placed on the current code: %s", what, c.Label, u.msg))
				res, placed = "true", false
				return
			}
			panic(r)
		}
	}()
	return e.evalBool(c.E, env, c), true
}

// evalLoopInv: a loop invariant that names a local variable the function no longer has cannot be placed
// on the changed code (the inductive argument proved on the unchanged tree does not transfer): it is
// reported as a failed structural obligation and treated as `true`, instead of aborting the whole check.
func (e *FnEnc) evalLoopInv(c *Clause, env *specEnv, ordinal int) (res string) {
	defer func() {
		if r := recover(); r != nil {
			if u, ok := r.(unsupported); ok && clauseCannotBePlaced(u.msg) {
				msg := fmt.Sprintf("loop %d invariant [%s] cannot be placed on the current code: %s", ordinal, c.Label, u.msg)
				seen := false
				for _, s := range e.structural {
					if s == msg {
						seen = true
					}
				}
				if !seen {
					e.structural = append(e.structural, msg)
				}
				res = "true"
				return
			}
			panic(r)
		}
	}()
	for _, li := range e.loops {
		if li.ordinal == ordinal {
			env.visRange = e.loopRange(li)
			if env.visRange == nil {
				// a loop nested in a map-range loop: visited(k) names the iterator of the innermost enclosing
				// map range (its visited set is not written by the inner loop)
				var best *loopInfo
				for _, lo := range e.loops {
					if lo == li || len(lo.blocks) <= len(li.blocks) || !lo.blocks[li.header] {
						continue
					}
					if r := e.loopRange(lo); r != nil && (best == nil || len(lo.blocks) < len(best.blocks)) {
						best = lo
						env.visRange = r
					}
				}
			}
		}
	}
	return e.evalBool(c.E, env, c)
}

// coerce untyped nil / constants to type t
func (e *FnEnc) coerce(v Val, t types.Type) Val {
	if v.T == nil || len(v.L) != e.sorter.numLeaves(t) {
		if len(v.L) == 1 && v.L[0] == "0" { // nil
			return e.zeroVal(t)
		}
	}
	return v
}

func (e *FnEnc) encodeExit() {
	if len(e.rets) == 0 {
		return
	}
	var gs []string
	for _, r := range e.rets {
		gs = append(gs, r.guard)
	}
	e.curGuard = e.define("bb_exit", "Bool", sor(gs...))
	// merge results
	nres := e.fn.Signature.Results().Len()
	e.results = make([]Val, nres)
	for i := 0; i < nres; i++ {
		var v Val
		for k := len(e.rets) - 1; k >= 0; k-- {
			x := e.coerce(e.rets[k].vals[i], e.fn.Signature.Results().At(i).Type())
			if k == len(e.rets)-1 {
				v = x
			} else {
				v = e.iteVal(e.rets[k].guard, x, v)
			}
		}
		e.results[i] = e.nameVal(fmt.Sprintf("result%d", i), v)
	}
	// merge heap
	names := map[string]bool{}
	maxEpoch := 0
	for _, r := range e.rets {
		for k := range r.st.heap {
			names[k] = true
		}
		if r.st.epoch > maxEpoch {
			maxEpoch = r.st.epoch
		}
	}
	diff := false
	for _, r := range e.rets {
		if r.st.epoch != maxEpoch {
			diff = true
		}
	}
	if diff {
		for k := range e.heapSort {
			names[k] = true
		}
		e.nepoch++
		maxEpoch = e.nepoch
	}
	ns := &State{heap: map[string]string{}, epoch: maxEpoch}
	for _, k := range sortedKeys(names) {
		t := e.heapIn(e.rets[len(e.rets)-1].st, k)
		for i := len(e.rets) - 2; i >= 0; i-- {
			t = site(e.rets[i].guard, e.heapIn(e.rets[i].st, k), t)
		}
		if strings.HasPrefix(t, "(") {
			t = e.define(e.fresh(k), e.heapSort[k], t)
		}
		ns.heap[k] = t
	}
	e.st = ns
	e.exitState = ns
	if e.pass != 2 {
		return
	}
	env := e.exitEnv()
	// the vacuity cover ("the exit is reachable") is asked BEFORE the postconditions are assumed: a postcondition
	// that fails on changed code would otherwise make the exit look unreachable and turn a violation into exit 2
	e.coverAsserts = len(e.asserts)
	for _, c := range e.c.Ensures {
		t, placed := e.evalPlaced(c, env, "postcondition")
		if !placed {
			continue
		}
		e.flushFacts()
		lbl := c.Label
		if lbl == "" {
			lbl = shortLabel(c.Src)
		}
		if c.Kind == "assumes" {
			// a postcondition that is assumed, not proved (it names the result of unverified code); listed as an assumption
			e.note(e.key + ": assumed postcondition [" + lbl + "] " + c.Src)
			e.assume(t)
			continue
		}
		e.oblige("ensures", lbl, t, token.NoPos)
		// fallback decomposition: the same clause at each return point separately (no ite-merged results)
		if len(e.rets) > 1 && len(e.obls) > 0 && e.obls[len(e.obls)-1].Goal == t {
			parent := e.obls[len(e.obls)-1]
			saveG, saveSt := e.curGuard, e.st
			for k, r := range e.rets {
				renv := &specEnv{e: e, vars: map[string]Val{}, st: r.st, old: e.st0, fvs: e.fvPtrs}
				for kk, v := range e.params {
					renv.vars[kk] = v
				}
				res := e.fn.Signature.Results()
				for i := 0; i < res.Len(); i++ {
					rv := e.coerce(r.vals[i], res.At(i).Type())
					rv.T = res.At(i).Type()
					renv.results = append(renv.results, rv)
					if n := res.At(i).Name(); n != "" && n != "_" {
						if _, clash := renv.vars[n]; !clash {
							renv.vars[n] = rv
						}
					}
				}
				e.curGuard, e.st = r.guard, r.st
				rt := e.evalBool(c.E, renv, c)
				e.flushFacts()
				parent.subs = append(parent.subs, &Obligation{Name: fmt.Sprintf("%s@return%d", parent.Name, k+1), Kind: "ensures", Props: parent.Props, Fn: parent.Fn, nAsserts: len(e.asserts), Guard: r.guard, Goal: rt, enc: e})
				e.assume(rt) // later clauses may use this one (each is proved before it is assumed)
			}
			e.curGuard, e.st = saveG, saveSt
		}
		e.assume(t)
	}
	e.frameObligations()
}

func shortLabel(s string) string {
	s = strings.Join(strings.Fields(s), " ")
	if len(s) > 60 {
		s = s[:60]
	}
	return s
}

// ---------- SSA values ----------

func (e *FnEnc) val(v ssa.Value) Val {
	if x, ok := e.vals[v]; ok {
		return x
	}
	switch c := v.(type) {
	case *ssa.Const:
		return e.constVal(c)
	case *ssa.Global:
		return e.globalAddr(c)
	case *ssa.Function:
		return Val{T: c.Type(), L: []string{e.funcRef(c)}}
	case *ssa.Builtin:
		return Val{T: c.Type(), L: []string{"0"}}
	}
	// value defined in a block not yet visited (unreachable code) or unsupported
	x := e.freshVal("undef_"+v.Name(), v.Type())
	e.vals[v] = x
	return x
}

func (e *FnEnc) funcRef(f *ssa.Function) string {
	n := e.decl("func:"+f.String(), "Int")
	return n
}

func (e *FnEnc) globalAddr(g *ssa.Global) Val {
	pt := g.Type().Underlying().(*types.Pointer)
	name := g.Pkg.Pkg.Name() + "." + g.Name()
	if isAggregateElem(pt.Elem()) {
		r := e.decl("glob:"+name, "Int")
		if !e.ufs["globfact:"+name] {
			e.ufs["globfact:"+name] = true
			e.specDefs = append(e.specDefs, "(assert (> "+r+" 0))")
		}
		return Val{T: g.Type(), L: []string{r}}
	}
	return Val{T: g.Type(), L: []string{""}, Loc: &Loc{Kind: "global", ObjT: name, T: pt.Elem()}}
}

func (e *FnEnc) constVal(c *ssa.Const) Val {
	t := c.Type()
	if c.Value == nil {
		return e.zeroVal(t)
	}
	switch {
	case isBoolType(t):
		if constant.BoolVal(c.Value) {
			return Val{T: t, L: []string{"true"}}
		}
		return Val{T: t, L: []string{"false"}}
	case isIntType(t):
		bi, ok := constant.Val(constant.ToInt(c.Value)).(*big.Int)
		if !ok {
			i64, _ := constant.Int64Val(constant.ToInt(c.Value))
			bi = big.NewInt(i64)
		}
		return Val{T: t, L: []string{e.sorter.constInt(bi, t)}}
	case isStringType(t):
		return Val{T: t, L: []string{e.strLit(constant.StringVal(c.Value))}}
	}
	// float constants etc: opaque
	n := e.decl("const:"+c.Value.ExactString()+":"+typeName(t), "Int")
	return Val{T: t, L: []string{n}}
}

// ---------- instruction encoding ----------

func (e *FnEnc) setVal(v ssa.Value, x Val) {
	x.T = v.Type()
	e.vals[v] = e.nameVal(v.Name(), x)
}

func (e *FnEnc) panicKind(kind string) bool {
	return e.c.NoPanic && (len(e.c.NoPanicKinds) == 0 || e.c.NoPanicKinds[kind])
}

func (e *FnEnc) panicCheck(kind, label, cond string, pos token.Pos) {
	if e.panicKind(kind) && e.pass == 2 {
		e.oblige(kind, label, cond, pos)
	}
	e.assume(cond)
}

func (e *FnEnc) posLabel(pos token.Pos, fallback string) string {
	if pos.IsValid() {
		if src := e.prog.sourceLine(pos); src != "" {
			return shortLabel(src)
		}
	}
	return fallback
}

func (e *FnEnc) nonNil(p Val, pos token.Pos, what string) {
	if p.Loc != nil {
		return
	}
	e.panicCheck("nil", e.posLabel(pos, what), snot(seq(p.L[0], "0")), pos)
}

func (e *FnEnc) encodeInstr(in ssa.Instruction) {
	switch x := in.(type) {
	case *ssa.DebugRef:
	case *ssa.Alloc:
		pt := x.Type().Underlying().(*types.Pointer)
		r := e.newRef("alloc_" + x.Name())
		e.vals[x] = Val{T: x.Type(), L: []string{r}}
		if _, isStruct := pt.Elem().Underlying().(*types.Struct); isStruct && !x.Heap && e.allocStaysLocal(x) {
			if e.localObjs == nil {
				e.localObjs = map[string]string{}
			}
			e.localObjs[r] = x.Name()
		}
		if e.isPrivateCell(x) {
			e.privCells = append(e.privCells, privCell{r, pt.Elem()})
		}
		e.zeroInit(r, pt.Elem())
	case *ssa.BinOp:
		e.encBinOp(x)
	case *ssa.UnOp:
		e.encUnOp(x)
	case *ssa.Call:
		res := e.encCall(x.Common(), x, x.Pos())
		if res != nil {
			e.setVal(x, *res)
		}
	case *ssa.ChangeType:
		v := e.val(x.X)
		e.setVal(x, v)
	case *ssa.Convert:
		e.encConvert(x)
	case *ssa.ChangeInterface:
		e.setVal(x, e.val(x.X))
	case *ssa.MakeInterface:
		e.setVal(x, e.makeIface(e.val(x.X), x.X.Type()))
	case *ssa.Extract:
		tp := x.Tuple.Type().(*types.Tuple)
		tv := e.val(x.Tuple)
		lo, hi := e.sorter.tupleRange(tp, x.Index)
		e.setVal(x, Val{L: tv.L[lo:hi]})
	case *ssa.Field:
		st := x.X.Type().Underlying().(*types.Struct)
		sv := e.val(x.X)
		lo, hi := e.sorter.fieldRange(st, x.Field)
		e.setVal(x, Val{L: sv.L[lo:hi]})
	case *ssa.FieldAddr:
		p := e.val(x.X)
		e.nonNil(p, x.Pos(), "field of nil "+x.X.Name())
		st := x.X.Type().Underlying().(*types.Pointer).Elem()
		e.vals[x] = e.fieldAddr(p, st, x.Field, x.Type())
	case *ssa.IndexAddr:
		e.encIndexAddr(x)
	case *ssa.Index:
		e.encIndex(x)
	case *ssa.Lookup:
		e.encLookup(x)
	case *ssa.MakeSlice:
		e.encMakeSlice(x)
	case *ssa.MakeMap:
		r := e.newRef("map_" + x.Name())
		mt := x.Type().Underlying().(*types.Map)
		dn, ds := e.mapDom(mt)
		a := e.heapArr(dn, ds)
		e.setHeap(dn, ds, "(store "+a+" "+r+" ((as const "+e.mapKeySet(mt)+") false))")
		e.setVal(x, Val{L: []string{r}})
	case *ssa.MapUpdate:
		e.encMapUpdate(x)
	case *ssa.Slice:
		e.encSlice(x)
	case *ssa.Store:
		p := e.val(x.Addr)
		v := e.coerce(e.val(x.Val), x.Val.Type())
		e.storeThrough(p, v)
	case *ssa.TypeAssert:
		e.encTypeAssert(x)
	case *ssa.If, *ssa.Jump:
	case *ssa.Return:
		var vs []Val
		for _, r := range x.Results {
			vs = append(vs, e.val(r))
		}
		e.rets = append(e.rets, retInfo{e.curBlock, e.curGuard, vs, e.st.clone()})
	case *ssa.Panic:
		if e.panicKind("panic") && e.pass == 2 {
			e.oblige("panic", e.posLabel(x.Pos(), "explicit panic"), "false", x.Pos())
		}
	case *ssa.RunDefers:
		for i := len(e.deferred) - 1; i >= 0; i-- {
			d := e.deferred[i]
			if !d.Block().Dominates(e.curBlock) {
				if !blockReaches(d.Block(), e.curBlock) {
					continue // this return is not reachable from the defer statement: the call was never deferred here
				}
				unsup("conditional defer")
			}
			e.encCall(d.Common(), nil, d.Pos())
		}
	case *ssa.Defer:
		// arguments are evaluated now; we only support defers whose effect does not depend on that
		e.deferred = append(e.deferred, x)
	case *ssa.Go:
		e.note(e.key + ": `go` statement: spawned goroutine body not verified, spawn is a no-op")
	case *ssa.Range:
		e.encRangeInit(x)
	case *ssa.Next:
		e.encNext(x)
	case *ssa.MakeClosure:
		e.setVal(x, e.freshVal("closure", x.Type()))
	case *ssa.Send:
		e.note(e.key + ": channel send treated as a no-op")
	case *ssa.MakeChan:
		r := e.newRef("chan_" + x.Name())
		e.setVal(x, Val{L: []string{r}})
		e.setHeap("C/closed", "(Array Int Bool)", "(store "+e.heapArr("C/closed", "(Array Int Bool)")+" "+r+" false)")
	case *ssa.Select:
		e.note(e.key + ": select: results unconstrained")
		e.setVal(x, e.freshVal("select", x.Type()))
	case *ssa.SliceToArrayPointer:
		s := e.val(x.X)
		e.setVal(x, Val{L: []string{s.L[0]}})
		unsup("slice to array pointer")
	default:
		unsup("instruction %T (%s)", in, in.String())
	}
}

func (e *FnEnc) newRef(name string) string {
	r := e.decl(e.fresh(name), "Int")
	a := e.heapArr("$alloc", "(Array Int Bool)")
	e.assume(sand("(> "+r+" 0)", "(not (select "+a+" "+r+"))"))
	e.setHeap("$alloc", "(Array Int Bool)", "(store "+a+" "+r+" true)")
	return r
}

// the (so far never accessed) object at fresh ref r holds zero values
func (e *FnEnc) zeroInit(r string, t types.Type) {
	switch u := t.Underlying().(type) {
	case *types.Struct:
		for i := 0; i < u.NumFields(); i++ {
			f := u.Field(i)
			if isAggregateElem(f.Type()) {
				e.zeroInit(e.emb(r, i+1), f.Type())
				continue
			}
			for _, l := range e.sorter.leaves(f.Type()) {
				a := e.heapArr(objArrName(e.objT(r, t), "."+f.Name()+l.suffix), e.arrSort1(l.sort))
				z := e.sorter.zeroLeaf(l)
				if isStringType(f.Type()) {
					z = e.strLit("")
				}
				e.assume(seq("(select "+a+" "+r+")", z))
			}
		}
	case *types.Array:
		if isAggregateElem(u.Elem()) {
			e.note("zero-initialisation of arrays of aggregates not modelled")
			return
		}
		for _, l := range e.sorter.leaves(u.Elem()) {
			a := e.heapArr(elemArrName(typeName(u.Elem()), l.suffix), e.arrSort2(l.sort))
			e.assume(seq("(select "+a+" "+r+")", e.sorter.zeroLeaf(leaf{sort: "(Array " + e.sorter.idxSort() + " " + l.sort + ")"})))
		}
	default:
		for _, l := range e.sorter.leaves(t) {
			a := e.heapArr(objArrName("cell:"+typeName(t), l.suffix), e.arrSort1(l.sort))
			z := e.sorter.zeroLeaf(l)
			if isStringType(t) {
				z = e.strLit("")
			}
			e.assume(seq("(select "+a+" "+r+")", z))
		}
	}
}

func (e *FnEnc) encBinOp(x *ssa.BinOp) {
	a, b := e.val(x.X), e.val(x.Y)
	tx := x.X.Type()
	switch {
	case isStringType(tx):
		switch x.Op {
		case token.EQL, token.NEQ:
			e.strExtensionality()
			r := seq(a.L[0], b.L[0])
			if x.Op == token.NEQ {
				r = snot(r)
			}
			e.setVal(x, Val{L: []string{r}})
		case token.ADD:
			f := e.uf("str_cat", []string{"Int", "Int"}, "Int")
			r := "(" + f + " " + a.L[0] + " " + b.L[0] + ")"
			e.catAxioms()
			e.setVal(x, Val{L: []string{r}})
		default:
			f := e.uf("str_cmp_"+opName(x.Op), []string{"Int", "Int"}, "Bool")
			e.setVal(x, Val{L: []string{"(" + f + " " + a.L[0] + " " + b.L[0] + ")"}})
		}
		return
	case isIntType(tx) || isBoolType(tx):
		a = e.coerce(a, tx)
		r, np := e.binop(x.Op, a.L[0], b.L[0], tx, x.Y.Type(), true)
		if np != "" {
			e.panicCheck("div0", e.posLabel(x.Pos(), "division"), np, x.Pos())
		}
		e.setVal(x, Val{L: []string{r}})
		return
	case isFloatType(tx):
		f := e.uf("float_"+opName(x.Op), []string{"Int", "Int"}, opResultSort(x.Op))
		e.setVal(x, Val{L: []string{"(" + f + " " + a.L[0] + " " + b.L[0] + ")"}})
		return
	}
	// comparisons of pointers, interfaces, slices-with-nil, structs, arrays
	if x.Op != token.EQL && x.Op != token.NEQ {
		unsup("binop %s on %s", x.Op, tx)
	}
	a = e.coerce(a, x.Y.Type())
	b = e.coerce(b, x.X.Type())
	var r string
	switch tx.Underlying().(type) {
	case *types.Slice:
		r = seq(a.L[0], b.L[0]) // only comparison with nil is legal
	case *types.Interface:
		if isNilConst(x.Y) || isNilConst(x.X) {
			// nil-ness of an interface value is decided by its dynamic-type tag alone
			if isNilConst(x.Y) {
				r = seq(a.L[0], "0")
			} else {
				r = seq(b.L[0], "0")
			}
			break
		}
		if _, ok := x.Y.Type().Underlying().(*types.Interface); !ok {
			b = e.makeIface(b, x.Y.Type())
		}
		r = sand(seq(a.L[0], b.L[0]), seq(a.L[1], b.L[1]))
	default:
		if a.Loc != nil || b.Loc != nil {
			unsup("comparison of interior pointers")
		}
		if len(a.L) != len(b.L) {
			if _, ok := x.X.Type().Underlying().(*types.Interface); !ok {
				a = e.makeIface(a, x.X.Type())
				r = sand(seq(a.L[0], b.L[0]), seq(a.L[1], b.L[1]))
				break
			}
		}
		var cs []string
		for i := range a.L {
			cs = append(cs, seq(a.L[i], b.L[i]))
		}
		r = sand(cs...)
	}
	if x.Op == token.NEQ {
		r = snot(r)
	}
	e.setVal(x, Val{L: []string{r}})
}

func isNilConst(v ssa.Value) bool {
	c, ok := v.(*ssa.Const)
	return ok && c.Value == nil
}

func (e *FnEnc) catAxioms() {
	if e.ufs["str_cat_ax"] {
		return
	}
	e.ufs["str_cat_ax"] = true
	e.strLen("0")
	e.strAt("0", e.idxConst(0))
	ix := e.sorter.idxSort()
	e.specDefs = append(e.specDefs,
		fmt.Sprintf("(assert (forall ((a Int) (b Int)) (! (= (str_len (str_cat a b)) %s) :pattern ((str_cat a b)))))", e.idxAdd("(str_len a)", "(str_len b)")),
		fmt.Sprintf("(assert (forall ((a Int) (b Int) (k %s)) (! (= (str_at (str_cat a b) k) (ite %s (str_at a k) (str_at b %s))) :pattern ((str_at (str_cat a b) k)))))", ix, e.idxLt("k", "(str_len a)"), e.idxSub("k", "(str_len a)")))
}

func (e *FnEnc) encUnOp(x *ssa.UnOp) {
	switch x.Op {
	case token.MUL: // load
		p := e.val(x.X)
		e.nonNil(p, x.Pos(), "load through nil "+x.X.Name())
		v := e.deref(p)
		e.setVal(x, v)
		v2 := e.vals[x]
		e.assume(e.typeFacts(v2))
		e.assume(e.allocatedFacts(v2, e.heapArr("$alloc", "(Array Int Bool)")))
	case token.ARROW:
		e.note(e.key + ": channel receive: result unconstrained")
		e.setVal(x, e.freshVal("recv", x.Type()))
		e.assume(e.typeFacts(e.vals[x]))
	default:
		a := e.val(x.X)
		if isFloatType(x.X.Type()) {
			f := e.uf("float_neg", []string{"Int"}, "Int")
			e.setVal(x, Val{L: []string{"(" + f + " " + a.L[0] + ")"}})
			return
		}
		e.setVal(x, Val{L: []string{e.unop(x.Op, a.L[0], x.X.Type(), true)}})
	}
}

func (e *FnEnc) encConvert(x *ssa.Convert) {
	from, to := x.X.Type(), x.Type()
	v := e.val(x.X)
	switch {
	case isIntType(from) && isIntType(to):
		e.setVal(x, Val{L: []string{e.sorter.convInt(v.L[0], from, to)}})
	case isStringType(from) && isByteSlice(to):
		// fresh array with the string's bytes
		r := e.newRef("s2b")
		n := e.strLen(v.L[0])
		name := elemArrName(typeName(tByte), "")
		srt := e.arrSort2(e.sorter.intSort(tByte))
		a := e.heapArr(name, srt)
		ix := e.sorter.idxSort()
		e.assume(fmt.Sprintf("(forall ((k %s)) (! (=> (and %s %s) (= (select (select %s %s) k) %s)) :pattern ((select (select %s %s) k))))",
			ix, e.idxLe(e.idxConst(0), "k"), e.idxLt("k", n), a, r, e.strAt(v.L[0], "k"), a, r))
		e.setVal(x, Val{L: []string{r, e.idxConst(0), n, n}})
	case isByteSlice(from) && isStringType(to):
		s := e.decl(e.fresh("b2s"), "Int")
		name := elemArrName(typeName(tByte), "")
		srt := e.arrSort2(e.sorter.intSort(tByte))
		a := e.heapArr(name, srt)
		ix := e.sorter.idxSort()
		e.assume(seq(e.strLen(s), v.L[2]))
		e.assume(fmt.Sprintf("(forall ((k %s)) (! (=> (and %s %s) (= %s (select (select %s %s) %s))) :pattern (%s)))",
			ix, e.idxLe(e.idxConst(0), "k"), e.idxLt("k", v.L[2]), e.strAt(s, "k"), a, v.L[0], e.idxAdd(v.L[1], "k"), e.strAt(s, "k")))
		e.setVal(x, Val{L: []string{s}})
	case isStringType(from) && isRuneSlice(to):
		// fresh array of unconstrained runes, at most one per byte of the string
		r := e.newRef("s2r")
		n := e.decl(e.fresh("s2r_len"), e.sorter.idxSort())
		e.assume(sand(e.idxLe(e.idxConst(0), n), e.idxLe(n, e.strLen(v.L[0]))))
		e.assume(e.strLenFacts(v.L[0]))
		e.setVal(x, Val{L: []string{r, e.idxConst(0), n, n}})
	case isStringType(to) || isStringType(from):
		nv := e.freshVal("strconv", to)
		e.setVal(x, nv)
		e.assume(e.typeFacts(e.vals[x]))
	case isFloatType(from) || isFloatType(to):
		nv := e.freshVal("floatconv", to)
		e.setVal(x, nv)
		e.assume(e.typeFacts(e.vals[x]))
	default:
		// pointer <-> unsafe.Pointer etc.
		if len(v.L) == e.sorter.numLeaves(to) {
			e.setVal(x, v)
			return
		}
		unsup("convert %s -> %s", from, to)
	}
}

func isByteSlice(t types.Type) bool {
	s, ok := t.Underlying().(*types.Slice)
	if !ok {
		return false
	}
	b, ok := s.Elem().Underlying().(*types.Basic)
	return ok && b.Kind() == types.Uint8
}

// tags for dynamic types
func (e *FnEnc) typeTag(t types.Type) string {
	return e.prog.typeTag(t)
}

func (e *FnEnc) makeIface(v Val, t types.Type) Val {
	if _, ok := t.Underlying().(*types.Interface); ok {
		return v
	}
	tag := e.typeTag(t)
	if v.Loc != nil {
		// a field/element address boxed into an interface (binary.Read(r, order, &x.f)): the interface value
		// carries an opaque token; the pointee is havocked where the interface is handed to an opaque callee
		// (calls.go looks through the MakeInterface). Unboxing such a value again is not supported.
		e.note("interior pointer boxed in an interface value: opaque token (only passing it on to library calls is modelled)")
		tok := e.decl(e.fresh("ifaceptr"), "Int")
		e.assume("(> " + tok + " 0)")
		return Val{T: types.NewInterfaceType(nil, nil), L: []string{tag, tok}}
	}
	var payload string
	switch {
	case len(v.L) == 1 && (e.sorter.leaves(t)[0].sort == "Int"):
		payload = v.L[0]
	case len(v.L) == 1 && isBoolType(t):
		payload = site(v.L[0], "1", "0")
	case len(v.L) == 1 && isIntType(t) && e.sorter.mode == ModeBV:
		w := intWidth(t)
		f := e.uf(fmt.Sprintf("box_bv%d", w), []string{fmt.Sprintf("(_ BitVec %d)", w)}, "Int")
		payload = "(" + f + " " + v.L[0] + ")"
	default:
		// box aggregate: injective function of its leaves is too costly; use a fresh box holding the value
		r := e.newRef("box")
		if isAggregateElem(t) {
			e.storeObj(r, t, v)
		} else {
			e.storeObj(r, t, v)
		}
		payload = r
	}
	return Val{L: []string{tag, payload}}
}

func (e *FnEnc) unboxIface(iv Val, t types.Type) Val {
	switch {
	case e.sorter.numLeaves(t) == 1 && e.sorter.leaves(t)[0].sort == "Int":
		return Val{T: t, L: []string{iv.L[1]}}
	case e.sorter.numLeaves(t) == 1 && isBoolType(t):
		return Val{T: t, L: []string{seq(iv.L[1], "1")}}
	case e.sorter.numLeaves(t) == 1 && isIntType(t) && e.sorter.mode == ModeBV:
		w := intWidth(t)
		f := e.uf(fmt.Sprintf("unbox_bv%d", w), []string{"Int"}, fmt.Sprintf("(_ BitVec %d)", w))
		return Val{T: t, L: []string{"(" + f + " " + iv.L[1] + ")"}}
	}
	return e.loadObj(iv.L[1], t)
}

func (e *FnEnc) encTypeAssert(x *ssa.TypeAssert) {
	iv := e.val(x.X)
	var ok string
	var res Val
	if it, isI := x.AssertedType.Underlying().(*types.Interface); isI {
		// interface-to-interface: ok iff dynamic type implements it: approximate by enumerating known tags
		ok = e.implementsCond(iv.L[0], it)
		res = Val{T: x.AssertedType, L: []string{iv.L[0], iv.L[1]}}
	} else {
		ok = seq(iv.L[0], e.typeTag(x.AssertedType))
		res = e.unboxIface(iv, x.AssertedType)
	}
	if x.CommaOk {
		// on failure the value is the zero value
		z := e.zeroVal(x.AssertedType)
		var l []string
		for i := range res.L {
			l = append(l, site(ok, res.L[i], z.L[i]))
		}
		l = append(l, ok)
		e.setVal(x, Val{L: l})
		return
	}
	e.panicCheck("typeassert", e.posLabel(x.Pos(), "type assertion"), ok, x.Pos())
	e.setVal(x, res)
}

func (e *FnEnc) implementsCond(tag string, it *types.Interface) string {
	if it.NumMethods() == 0 {
		return snot(seq(tag, "0"))
	}
	f := e.uf("implements_"+typeName(it), []string{"Int"}, "Bool")
	// known concrete types: give exact answers
	for _, t := range e.prog.knownTagTypes() {
		ans := "false"
		if types.Implements(t, it) {
			ans = "true"
		}
		k := "impl:" + typeName(it) + ":" + typeName(t)
		if !e.ufs[k] {
			e.ufs[k] = true
			e.specDefs = append(e.specDefs, "(assert (= ("+f+" "+e.typeTag(t)+") "+ans+"))")
		}
	}
	if !e.ufs["impl0:"+typeName(it)] {
		e.ufs["impl0:"+typeName(it)] = true
		e.specDefs = append(e.specDefs, "(assert (not ("+f+" 0)))")
	}
	return "(" + f + " " + tag + ")"
}

func (e *FnEnc) encIndexAddr(x *ssa.IndexAddr) {
	i := e.idxOf(x.Index)
	switch t := x.X.Type().Underlying().(type) {
	case *types.Slice:
		s := e.val(x.X)
		e.panicCheck("index", e.posLabel(x.Pos(), "index"), sand(e.idxLe(e.idxConst(0), i), e.idxLt(i, s.L[2])), x.Pos())
		e.vals[x] = e.elemAddrRel(s.L[0], s.L[1], i, t.Elem(), x.Type())
	case *types.Pointer:
		at := t.Elem().Underlying().(*types.Array)
		p := e.val(x.X)
		e.nonNil(p, x.Pos(), "index of nil array pointer")
		e.panicCheck("index", e.posLabel(x.Pos(), "index"), sand(e.idxLe(e.idxConst(0), i), e.idxLt(i, e.idxConst(at.Len()))), x.Pos())
		e.vals[x] = e.elemAddr(p.L[0], i, at.Elem(), x.Type())
	default:
		unsup("IndexAddr on %s", x.X.Type())
	}
}

// index operand converted to the index sort
func (e *FnEnc) idxOf(v ssa.Value) string {
	x := e.val(v)
	return e.sorter.convIdx(x.L[0], v.Type())
}

func (s sorter) convIdx(x string, from types.Type) string {
	if s.mode != ModeBV {
		return x
	}
	return s.convInt(x, from, tInt)
}

func (e *FnEnc) encIndex(x *ssa.Index) {
	i := e.idxOf(x.Index)
	switch t := x.X.Type().Underlying().(type) {
	case *types.Array:
		a := e.val(x.X)
		e.panicCheck("index", e.posLabel(x.Pos(), "index"), sand(e.idxLe(e.idxConst(0), i), e.idxLt(i, e.idxConst(t.Len()))), x.Pos())
		var l []string
		for k := range a.L {
			l = append(l, "(select "+a.L[k]+" "+i+")")
		}
		e.setVal(x, Val{L: l})
	case *types.Basic: // string
		s := e.val(x.X)
		e.panicCheck("index", e.posLabel(x.Pos(), "index"), sand(e.idxLe(e.idxConst(0), i), e.idxLt(i, e.strLen(s.L[0]))), x.Pos())
		e.setVal(x, Val{L: []string{e.strAt(s.L[0], i)}})
		e.assume(e.typeFacts(e.vals[x]))
	default:
		unsup("Index on %s", x.X.Type())
	}
}

func (e *FnEnc) encMakeSlice(x *ssa.MakeSlice) {
	n := e.idxOf(x.Len)
	c := e.idxOf(x.Cap)
	e.panicCheck("makeslice", e.posLabel(x.Pos(), "make"), sand(e.idxLe(e.idxConst(0), n), e.idxLe(n, c)), x.Pos())
	r := e.newRef("make_" + x.Name())
	elT := x.Type().Underlying().(*types.Slice).Elem()
	if isAggregateElem(elT) {
		e.note("zero-initialisation of make([]struct) not modelled")
	} else {
		for _, l := range e.sorter.leaves(elT) {
			a := e.heapArr(elemArrName(typeName(elT), l.suffix), e.arrSort2(l.sort))
			z := e.sorter.zeroLeaf(leaf{sort: "(Array " + e.sorter.idxSort() + " " + l.sort + ")"})
			if isStringType(elT) {
				z = "((as const (Array " + e.sorter.idxSort() + " Int)) " + e.strLit("") + ")"
			}
			e.assume(seq("(select "+a+" "+r+")", z))
		}
	}
	e.setVal(x, Val{L: []string{r, e.idxConst(0), n, c}})
}

func (e *FnEnc) encSlice(x *ssa.Slice) {
	var lo, hi, mx string
	if x.Low != nil {
		lo = e.idxOf(x.Low)
	} else {
		lo = e.idxConst(0)
	}
	switch t := x.X.Type().Underlying().(type) {
	case *types.Slice:
		s := e.val(x.X)
		if x.High != nil {
			hi = e.idxOf(x.High)
		} else {
			hi = s.L[2]
		}
		if x.Max != nil {
			mx = e.idxOf(x.Max)
		} else {
			mx = s.L[3]
		}
		e.panicCheck("slice", e.posLabel(x.Pos(), "slice"), sand(e.idxLe(e.idxConst(0), lo), e.idxLe(lo, hi), e.idxLe(hi, mx), e.idxLe(mx, s.L[3])), x.Pos())
		e.setVal(x, Val{L: []string{s.L[0], e.idxAdd(s.L[1], lo), e.idxSub(hi, lo), e.idxSub(mx, lo)}})
	case *types.Basic: // string
		s := e.val(x.X)
		n := e.strLen(s.L[0])
		if x.High != nil {
			hi = e.idxOf(x.High)
		} else {
			hi = n
		}
		e.panicCheck("slice", e.posLabel(x.Pos(), "slice"), sand(e.idxLe(e.idxConst(0), lo), e.idxLe(lo, hi), e.idxLe(hi, n)), x.Pos())
		e.setVal(x, Val{L: []string{e.strSub(s.L[0], lo, hi)}})
	case *types.Pointer:
		at := t.Elem().Underlying().(*types.Array)
		p := e.val(x.X)
		e.nonNil(p, x.Pos(), "slice of nil array pointer")
		n := e.idxConst(at.Len())
		if x.High != nil {
			hi = e.idxOf(x.High)
		} else {
			hi = n
		}
		if x.Max != nil {
			mx = e.idxOf(x.Max)
		} else {
			mx = n
		}
		e.panicCheck("slice", e.posLabel(x.Pos(), "slice"), sand(e.idxLe(e.idxConst(0), lo), e.idxLe(lo, hi), e.idxLe(hi, mx), e.idxLe(mx, n)), x.Pos())
		e.setVal(x, Val{L: []string{p.L[0], lo, e.idxSub(hi, lo), e.idxSub(mx, lo)}})
	default:
		unsup("Slice on %s", x.X.Type())
	}
}

func (e *FnEnc) strSub(s, lo, hi string) string {
	f := e.uf("str_sub", []string{"Int", e.sorter.idxSort(), e.sorter.idxSort()}, "Int")
	if !e.ufs["str_sub_ax"] {
		e.ufs["str_sub_ax"] = true
		e.strLen("0")
		e.strAt("0", e.idxConst(0))
		ix := e.sorter.idxSort()
		e.specDefs = append(e.specDefs,
			fmt.Sprintf("(assert (forall ((a Int) (l %s) (h %s)) (! (= (str_len (str_sub a l h)) %s) :pattern ((str_sub a l h)))))", ix, ix, e.idxSub("h", "l")),
			// guarded by 0 <= k < h-l: unguarded, the empty substring str_sub(a,0,0) (equal to "" by extensionality)
			// would give every string the characters of "", which contradicts any two distinct constants
			fmt.Sprintf("(assert (forall ((a Int) (l %s) (h %s) (k %s)) (! (=> (and %s %s) (= (str_at (str_sub a l h) k) (str_at a %s))) :pattern ((str_at (str_sub a l h) k)))))", ix, ix, ix,
				e.idxLe(e.idxConst(0), "k"), e.idxLt("k", e.idxSub("h", "l")), e.idxAdd("l", "k")))
	}
	return "(" + f + " " + s + " " + lo + " " + hi + ")"
}

// ---------- maps ----------

func (e *FnEnc) mapKeySort(mt *types.Map) string {
	ls := e.sorter.leaves(mt.Key())
	if len(ls) != 1 {
		// composite keys: hash to an Int via uninterpreted function is unsound for equality; use first leaf only if interface
		return "Int"
	}
	return ls[0].sort
}
func (e *FnEnc) mapKeySet(mt *types.Map) string { return "(Array " + e.mapKeySort(mt) + " Bool)" }
func (e *FnEnc) mapDom(mt *types.Map) (string, string) {
	return "M/" + typeName(mt) + "/dom", "(Array Int " + e.mapKeySet(mt) + ")"
}
func (e *FnEnc) mapValArr(mt *types.Map, l leaf) (string, string) {
	return "M/" + typeName(mt) + "/val" + l.suffix, "(Array Int (Array " + e.mapKeySort(mt) + " " + l.sort + "))"
}

func (e *FnEnc) mapKey(mt *types.Map, k Val) string {
	if len(k.L) == 1 {
		return k.L[0]
	}
	if _, ok := mt.Key().Underlying().(*types.Interface); ok {
		f := e.uf("ifacekey", []string{"Int", "Int"}, "Int")
		e.note("interface map keys abstracted by an uninterpreted pairing")
		return "(" + f + " " + k.L[0] + " " + k.L[1] + ")"
	}
	unsup("composite map key %s", mt.Key())
	return ""
}

func (e *FnEnc) mapValElem(mt *types.Map) types.Type { return mt.Elem() }

func (e *FnEnc) mapGet(m string, mt *types.Map, key string) (Val, string) {
	dn, ds := e.mapDom(mt)
	dom := e.heapArr(dn, ds)
	has := "(select (select " + dom + " " + m + ") " + key + ")"
	if isAggregateElem(mt.Elem()) {
		unsup("map with aggregate values %s", mt)
	}
	v := Val{T: mt.Elem()}
	z := e.zeroVal(mt.Elem())
	for i, l := range e.sorter.leaves(mt.Elem()) {
		vn, vs := e.mapValArr(mt, l)
		a := e.heapArr(vn, vs)
		// a named function instead of a bare `ite`: z3 refuses patterns that contain `ite`, and quantified
		// contract clauses over m[k] need such patterns (mget(val, dom, m, k) = dom[m][k] ? val[m][k] : zero)
		ks := e.mapKeySort(mt)
		fname := "mget_" + strings.NewReplacer("(", "", ")", "", " ", "_").Replace(l.sort+"_"+ks) + "_" + sanitize(z.L[i])
		f := e.uf(fname, []string{vs, ds, "Int", ks}, l.sort)
		if !e.ufs[fname+"_ax"] {
			e.ufs[fname+"_ax"] = true
			e.specDefs = append(e.specDefs, fmt.Sprintf("(assert (forall ((v %s) (d %s) (m Int) (k %s)) (! (= (%s v d m k) (ite (select (select d m) k) (select (select v m) k) %s)) :pattern ((%s v d m k)))))", vs, ds, ks, f, z.L[i], f))
		}
		v.L = append(v.L, fmt.Sprintf("(%s %s %s %s %s)", f, a, dom, m, key))
	}
	return v, has
}

func (e *FnEnc) encLookup(x *ssa.Lookup) {
	if mt, ok := x.X.Type().Underlying().(*types.Map); ok {
		m := e.val(x.X)
		k := e.mapKey(mt, e.coerceKey(e.val(x.Index), x.Index.Type(), mt.Key()))
		v, has := e.mapGet(m.L[0], mt, k)
		has = sand(snot(seq(m.L[0], "0")), has)
		z := e.zeroVal(mt.Elem())
		for i := range v.L {
			v.L[i] = site(snot(seq(m.L[0], "0")), v.L[i], z.L[i])
		}
		if x.CommaOk {
			e.setVal(x, Val{L: append(v.L, has)})
		} else {
			e.setVal(x, v)
		}
		e.assume(e.typeFacts(Val{T: mt.Elem(), L: e.vals[x].L[:len(v.L)]}))
		return
	}
	// string index
	s := e.val(x.X)
	i := e.idxOf(x.Index)
	e.panicCheck("index", e.posLabel(x.Pos(), "index"), sand(e.idxLe(e.idxConst(0), i), e.idxLt(i, e.strLen(s.L[0]))), x.Pos())
	e.setVal(x, Val{L: []string{e.strAt(s.L[0], i)}})
	e.assume(e.typeFacts(e.vals[x]))
}

func (e *FnEnc) coerceKey(k Val, from, to types.Type) Val {
	if _, ok := to.Underlying().(*types.Interface); ok {
		if _, ok2 := from.Underlying().(*types.Interface); !ok2 {
			return e.makeIface(k, from)
		}
	}
	return k
}

func (e *FnEnc) encMapUpdate(x *ssa.MapUpdate) {
	mt := x.Map.Type().Underlying().(*types.Map)
	m := e.val(x.Map)
	e.panicCheck("nilmap", e.posLabel(x.Pos(), "assignment to nil map"), snot(seq(m.L[0], "0")), x.Pos())
	k := e.mapKey(mt, e.coerceKey(e.val(x.Key), x.Key.Type(), mt.Key()))
	v := e.coerce(e.val(x.Value), mt.Elem())
	if _, ok := mt.Elem().Underlying().(*types.Interface); ok {
		v = e.makeIface(v, x.Value.Type())
	}
	e.mapSet(m.L[0], mt, k, v)
}

func (e *FnEnc) mapSet(m string, mt *types.Map, k string, v Val) {
	dn, ds := e.mapDom(mt)
	dom := e.heapArr(dn, ds)
	e.setHeap(dn, ds, "(store "+dom+" "+m+" (store (select "+dom+" "+m+") "+k+" true))")
	if isAggregateElem(mt.Elem()) {
		unsup("map with aggregate values %s", mt)
	}
	for i, l := range e.sorter.leaves(mt.Elem()) {
		vn, vs := e.mapValArr(mt, l)
		a := e.heapArr(vn, vs)
		e.setHeap(vn, vs, "(store "+a+" "+m+" (store (select "+a+" "+m+") "+k+" "+v.L[i]+"))")
	}
}

func (e *FnEnc) mapDelete(m string, mt *types.Map, k string) {
	dn, ds := e.mapDom(mt)
	dom := e.heapArr(dn, ds)
	e.setHeap(dn, ds, "(store "+dom+" "+m+" (store (select "+dom+" "+m+") "+k+" false))")
}

func (e *FnEnc) encNext(x *ssa.Next) {
	rng := x.Iter.(*ssa.Range)
	tp := x.Type().(*types.Tuple)
	if x.IsString {
		ok := e.decl(e.fresh("next_ok"), "Bool")
		k := e.freshVal("next_k", tp.At(1).Type())
		r := e.freshVal("next_r", tp.At(2).Type())
		e.assume(e.typeFacts(k))
		e.assume(e.typeFacts(r))
		e.note("range over string: index and rune unconstrained")
		e.setVal(x, Val{L: append(append([]string{ok}, k.L...), r.L...)})
		return
	}
	mt := rng.X.Type().Underlying().(*types.Map)
	m := e.val(rng.X)
	ok := e.decl(e.fresh("next_ok"), "Bool")
	kv := e.freshVal("next_k", mt.Key())
	e.assume(e.typeFacts(kv))
	k := e.mapKey(mt, kv)
	v, has := e.mapGet(m.L[0], mt, k)
	e.assume(simp(ok, sand(has, snot(seq(m.L[0], "0")))))
	// visited set of this iterator
	{
		srt := e.mapKeySet(mt)
		vname := rangeVisName(rng)
		vis := e.heapArr(vname, srt)
		e.assume(simp(ok, snot("(select "+vis+" "+k+")")))
		dn, ds := e.mapDom(mt)
		li := e.loopOfNext(e.curBlock)
		if e.pass == 2 && li != nil && !li.modAll && !li.mods[dn] {
			dom := e.heapArr(dn, ds)
			e.assume(simp(snot(ok), fmt.Sprintf("(forall ((k!v %s)) (! (=> (and (not (= %s 0)) (select (select %s %s) k!v)) (select %s k!v)) :pattern ((select (select %s %s) k!v))))", e.mapKeySort(mt), m.L[0], dom, m.L[0], vis, dom, m.L[0])))
		}
		e.setHeap(vname, srt, site(ok, "(store "+vis+" "+k+" true)", vis))
	}
	l := []string{ok}
	// key/value components may be typed invalid (unused): use tuple types
	if e.sorter.numLeaves(tp.At(1).Type()) == len(kv.L) {
		l = append(l, kv.L...)
	} else {
		l = append(l, e.zeroVal(tp.At(1).Type()).L...)
	}
	if e.sorter.numLeaves(tp.At(2).Type()) == len(v.L) {
		l = append(l, v.L...)
	} else {
		l = append(l, e.zeroVal(tp.At(2).Type()).L...)
	}
	e.setVal(x, Val{L: l})
	e.assume(e.typeFacts(Val{T: mt.Elem(), L: v.L}))
	e.note("range over map: keys are produced in an arbitrary order, each present key at most once; when the loop ends every present key has been produced (provided the loop does not add or remove keys)")
}

// ---------- environments for contract expressions ----------

func (e *FnEnc) entryEnv() *specEnv {
	env := &specEnv{e: e, vars: map[string]Val{}, st: e.st0, old: e.st0, fvs: e.fvPtrs}
	for k, v := range e.params {
		env.vars[k] = v
	}
	return env
}

func (e *FnEnc) exitEnv() *specEnv {
	env := &specEnv{e: e, vars: map[string]Val{}, st: e.st, old: e.st0, results: e.results, fvs: e.fvPtrs}
	for k, v := range e.params {
		env.vars[k] = v
	}
	// named results
	res := e.fn.Signature.Results()
	for i := 0; i < res.Len(); i++ {
		if n := res.At(i).Name(); n != "" && n != "_" {
			if _, clash := env.vars[n]; !clash {
				env.vars[n] = e.results[i]
			}
		}
	}
	return env
}

// environment at a block entry (loop header): phi overrides, variables resolved through debug info
func (e *FnEnc) pointEnv(b *ssa.BasicBlock, over map[*ssa.Phi]Val, loopPre *State) *specEnv {
	env := &specEnv{e: e, vars: map[string]Val{}, st: e.st, old: e.st0, loopPre: loopPre, fvs: e.fvPtrs}
	env.lookup = func(name string) (Val, bool) {
		// phis of the header
		for _, in := range b.Instrs {
			p, ok := in.(*ssa.Phi)
			if !ok {
				break
			}
			if p.Comment == name {
				if v, ok := over[p]; ok {
					return v, true
				}
				return e.vals[p], true
			}
		}
		// walk dominators
		for d := b.Idom(); d != nil; d = d.Idom() {
			for i := len(d.Instrs) - 1; i >= 0; i-- {
				switch x := d.Instrs[i].(type) {
				case *ssa.DebugRef:
					if x.Object() != nil && x.Object().Name() == name {
						if _, isVar := x.Object().(*types.Var); !isVar {
							continue
						}
						if x.IsAddr {
							return e.deref(e.val(x.X)), true
						}
						return e.val(x.X), true
					}
				case *ssa.Phi:
					if x.Comment == name {
						return e.val(x), true
					}
				case *ssa.Alloc:
					if x.Comment == name {
						return e.deref(e.val(x)), true
					}
				}
			}
		}
		if v, ok := e.params[name]; ok {
			return v, true
		}
		return Val{}, false
	}
	return env
}

// ---------- frame obligations ----------

func (e *FnEnc) frameObligations() {
	if !e.c.HasMod {
		return
	}
	// locations the contract allows to change, per heap array
	allowed := e.modifiesSets(e.c, e.entryEnv(), e.exitEnv())
	if allowed == nil {
		return // modifies *
	}
	e.allocClosureAxioms()
	alloc0 := quoteSym("$alloc")
	var names []string
	for k := range e.exitState.heap {
		names = append(names, k)
	}
	sort.Strings(names)
	for _, k := range names {
		if k == "$alloc" || strings.HasPrefix(k, "R/") || k == ghostClock {
			continue
		}
		cur := e.exitState.heap[k]
		if cur == quoteSym(k) {
			continue
		}
		srt := e.heapSort[k]
		var goal string
		if strings.HasPrefix(k, "G/") {
			if allowed[k] != nil {
				continue
			}
			goal = seq(cur, quoteSym(k))
		} else {
			if strings.HasPrefix(k, "E/") {
				exc := "false"
				if a := allowed[k]; a != nil {
					exc = a("r", "k")
				}
				goal = fmt.Sprintf("(forall ((r Int) (k %s)) (=> (and (select %s r) (not %s)) (= (select (select %s r) k) (select (select %s r) k))))", e.sorter.idxSort(), alloc0, exc, cur, quoteSym(k))
			} else {
				exc := "false"
				if a := allowed[k]; a != nil {
					exc = a("r", "")
				}
				goal = fmt.Sprintf("(forall ((r Int)) (=> (and (select %s r) (not %s)) (= (select %s r) (select %s r))))", alloc0, exc, cur, quoteSym(k))
			}
			_ = srt
		}
		e.oblige("frame", k, goal, token.NoPos)
	}
	if e.exitState.epoch != 0 {
		e.oblige("frame", "opaque call havocs the heap", "false", token.NoPos)
	}
}

// blockReaches: is `to` reachable from `from` in the CFG?
func blockReaches(from, to *ssa.BasicBlock) bool {
	seen := map[*ssa.BasicBlock]bool{}
	stack := []*ssa.BasicBlock{from}
	for len(stack) > 0 {
		b := stack[len(stack)-1]
		stack = stack[:len(stack)-1]
		if b == to {
			return true
		}
		if seen[b] {
			continue
		}
		seen[b] = true
		stack = append(stack, b.Succs...)
	}
	return false
}

package main

import (
	"fmt"
	"go/types"

	"golang.org/x/tools/go/ssa"
)

// Map iteration with a visited set. A `range` over a map is an iterator whose hidden state is the set of
// keys already produced ("R/<range value>", an array key -> Bool in the state, so that the loop machinery
// havocs it at the loop header like any other location written in the loop):
//   Range:      visited := {}
//   Next, ok:   the key is present and was not visited before; visited := visited + {key}
//   Next, !ok:  every present key has been visited — asserted only if the loop does not write the map's
//               key set (entries created or removed during the iteration may or may not be produced)
// Loop invariants name the set through the builtin visited(k).

func rangeVisName(r *ssa.Range) string { return "R/" + r.Name() + "/visited" }

func (e *FnEnc) encRangeInit(x *ssa.Range) {
	e.vals[x] = Val{T: x.X.Type(), L: e.val(x.X).L}
	mt, ok := x.X.Type().Underlying().(*types.Map)
	if !ok {
		return
	}
	srt := e.mapKeySet(mt)
	e.setHeap(rangeVisName(x), srt, "((as const "+srt+") false)")
}

// the map-range iterator advanced in loop li (nil if none or ambiguous)
func (e *FnEnc) loopRange(li *loopInfo) *ssa.Range {
	var found *ssa.Range
	for b := range li.blocks {
		for _, in := range b.Instrs {
			if nx, ok := in.(*ssa.Next); ok && !nx.IsString {
				r, _ := nx.Iter.(*ssa.Range)
				if r == nil {
					continue
				}
				if _, isMap := r.X.Type().Underlying().(*types.Map); !isMap {
					continue
				}
				// innermost loop containing the Next: skip iterators of nested loops
				inner := false
				for _, lj := range e.loops {
					if lj != li && lj.blocks[b] && len(lj.blocks) < len(li.blocks) {
						inner = true
					}
				}
				if inner {
					continue
				}
				if found != nil && found != r {
					return nil
				}
				found = r
			}
		}
	}
	return found
}

func (e *FnEnc) visitedTerm(r *ssa.Range, kv Val) string {
	mt := r.X.Type().Underlying().(*types.Map)
	vis := e.heapArr(rangeVisName(r), e.mapKeySet(mt))
	return fmt.Sprintf("(select %s %s)", vis, e.mapKey(mt, kv))
}

// loop containing block b that owns the iterator r
func (e *FnEnc) loopOfNext(b *ssa.BasicBlock) *loopInfo {
	var best *loopInfo
	for _, li := range e.loops {
		if li.blocks[b] && (best == nil || len(li.blocks) < len(best.blocks)) {
			best = li
		}
	}
	return best
}

package main

// Values, sorts, leaves, heap naming.

import (
	"fmt"
	"go/types"
	"math/big"
	"strings"
)

type Mode int

const (
	ModeInt Mode = iota
	ModeBV
)

// Loc is a static description of a non-object memory location (scalar field, slice element, global, cell).
type Loc struct {
	Kind string // "field" | "elem" | "global"
	ObjT string // struct type name | element type name | global name
	Fld  string // field name (for "field")
	Ref  string // object ref / slice base
	Idx  string // absolute element index (for "elem")
	Off  string // slice offset and
	Rel  string // relative index (Idx == Off+Rel), when known: reads use the trigger-friendly slice view
	T    types.Type
}

// Val is a (flattened) value: one SMT term per leaf of its Go type.
type Val struct {
	T   types.Type // nil for untyped spec constants
	L   []string
	Loc *Loc     // for pointers to non-object locations
	Lit *big.Int // untyped integer constant
}

type leaf struct {
	suffix string
	sort   string
	t      types.Type // go type of the leaf when scalar (for range assumptions); nil otherwise
}

func typeName(t types.Type) string {
	s := types.TypeString(t, func(p *types.Package) string { return p.Name() })
	s = strings.ReplaceAll(s, "|", "!")
	s = strings.ReplaceAll(s, "\\", "!")
	if len(s) > 120 {
		s = s[:120]
	}
	return s
}

func isUnsigned(t types.Type) bool {
	b, ok := t.Underlying().(*types.Basic)
	return ok && b.Info()&types.IsUnsigned != 0
}

func isIntType(t types.Type) bool {
	if t == nil {
		return false
	}
	b, ok := t.Underlying().(*types.Basic)
	return ok && b.Info()&types.IsInteger != 0
}

func isBoolType(t types.Type) bool {
	if t == nil {
		return false
	}
	b, ok := t.Underlying().(*types.Basic)
	return ok && b.Info()&types.IsBoolean != 0
}

func isStringType(t types.Type) bool {
	if t == nil {
		return false
	}
	b, ok := t.Underlying().(*types.Basic)
	return ok && b.Info()&types.IsString != 0
}

func isFloatType(t types.Type) bool {
	if t == nil {
		return false
	}
	b, ok := t.Underlying().(*types.Basic)
	return ok && b.Info()&(types.IsFloat|types.IsComplex) != 0
}

func intWidth(t types.Type) int {
	b, ok := t.Underlying().(*types.Basic)
	if !ok {
		return 64
	}
	switch b.Kind() {
	case types.Int8, types.Uint8:
		return 8
	case types.Int16, types.Uint16:
		return 16
	case types.Int32, types.Uint32:
		return 32
	}
	return 64
}

var tInt = types.Typ[types.Int]
var tBool = types.Typ[types.Bool]
var tByte = types.Typ[types.Uint8]
var tString = types.Typ[types.String]

type sorter struct{ mode Mode }

func (s sorter) intSort(t types.Type) string {
	if s.mode == ModeBV {
		return fmt.Sprintf("(_ BitVec %d)", intWidth(t))
	}
	return "Int"
}

func (s sorter) idxSort() string { return s.intSort(tInt) }

// leaves of a value of type t
func (s sorter) leaves(t types.Type) []leaf {
	switch u := t.Underlying().(type) {
	case *types.Basic:
		switch {
		case u.Info()&types.IsBoolean != 0:
			return []leaf{{"", "Bool", t}}
		case u.Info()&types.IsInteger != 0:
			return []leaf{{"", s.intSort(t), t}}
		case u.Info()&types.IsString != 0:
			return []leaf{{"", "Int", nil}}
		case u.Kind() == types.UntypedNil:
			return []leaf{{"", "Int", nil}}
		default: // floats, complex, unsafe pointer: opaque Int
			return []leaf{{"", "Int", nil}}
		}
	case *types.Pointer, *types.Map, *types.Chan, *types.Signature:
		return []leaf{{"", "Int", nil}}
	case *types.Slice:
		return []leaf{{"#base", "Int", nil}, {"#off", s.idxSort(), tInt}, {"#len", s.idxSort(), tInt}, {"#cap", s.idxSort(), tInt}}
	case *types.Interface:
		return []leaf{{"#tag", "Int", nil}, {"#val", "Int", nil}}
	case *types.Struct:
		var out []leaf
		for i := 0; i < u.NumFields(); i++ {
			f := u.Field(i)
			for _, l := range s.leaves(f.Type()) {
				out = append(out, leaf{"." + f.Name() + l.suffix, l.sort, l.t})
			}
		}
		if len(out) == 0 {
			out = append(out, leaf{".#empty", "Int", nil})
		}
		return out
	case *types.Array:
		var out []leaf
		for _, l := range s.leaves(u.Elem()) {
			out = append(out, leaf{l.suffix, "(Array " + s.idxSort() + " " + l.sort + ")", nil})
		}
		return out
	case *types.Tuple:
		var out []leaf
		for i := 0; i < u.Len(); i++ {
			for _, l := range s.leaves(u.At(i).Type()) {
				out = append(out, leaf{fmt.Sprintf("#%d%s", i, l.suffix), l.sort, l.t})
			}
		}
		return out
	case *types.TypeParam:
		return []leaf{{"", "Int", nil}}
	}
	panic(fmt.Sprintf("leaves: unsupported type %v (%T)", t, t.Underlying()))
}

func (s sorter) numLeaves(t types.Type) int { return len(s.leaves(t)) }

// field sub-range of a struct value's leaves
func (s sorter) fieldRange(st *types.Struct, idx int) (lo, hi int) {
	for i := 0; i < idx; i++ {
		lo += s.numLeaves(st.Field(i).Type())
	}
	return lo, lo + s.numLeaves(st.Field(idx).Type())
}

func (s sorter) tupleRange(tp *types.Tuple, idx int) (lo, hi int) {
	for i := 0; i < idx; i++ {
		lo += s.numLeaves(tp.At(i).Type())
	}
	return lo, lo + s.numLeaves(tp.At(idx).Type())
}

// ---- integer encoding helpers ----

func pow2(n int) *big.Int { return new(big.Int).Lsh(big.NewInt(1), uint(n)) }

func smtInt(v *big.Int) string {
	if v.Sign() < 0 {
		return "(- " + new(big.Int).Neg(v).String() + ")"
	}
	return v.String()
}

func (s sorter) constInt(v *big.Int, t types.Type) string {
	if s.mode == ModeBV {
		w := intWidth(t)
		m := new(big.Int).Mod(v, pow2(w))
		return fmt.Sprintf("(_ bv%s %d)", m.String(), w)
	}
	return smtInt(v)
}

func (s sorter) zeroLeaf(l leaf) string {
	switch {
	case l.sort == "Bool":
		return "false"
	case l.sort == "Int":
		return "0"
	case strings.HasPrefix(l.sort, "(_ BitVec"):
		var w int
		fmt.Sscanf(l.sort, "(_ BitVec %d)", &w)
		return fmt.Sprintf("(_ bv0 %d)", w)
	case strings.HasPrefix(l.sort, "(Array"):
		// (Array idx elem)
		inner := arrayElemSort(l.sort)
		return "((as const " + l.sort + ") " + s.zeroLeaf(leaf{sort: inner}) + ")"
	}
	panic("zeroLeaf " + l.sort)
}

func arrayElemSort(sort string) string {
	// sort = "(Array A B)" ; A may be "(_ BitVec 64)" or "Int"
	body := sort[len("(Array ") : len(sort)-1]
	// skip first sort
	i := 0
	if body[0] == '(' {
		d := 0
		for i = 0; i < len(body); i++ {
			if body[i] == '(' {
				d++
			} else if body[i] == ')' {
				d--
				if d == 0 {
					i++
					break
				}
			}
		}
	} else {
		i = strings.Index(body, " ")
	}
	return strings.TrimSpace(body[i:])
}

// range constraint for an integer-typed term in Int mode ("" if none needed)
func (s sorter) rangeOf(term string, t types.Type) string {
	if s.mode == ModeBV || t == nil || !isIntType(t) {
		return ""
	}
	w := intWidth(t)
	if isUnsigned(t) {
		return fmt.Sprintf("(and (<= 0 %s) (< %s %s))", term, term, pow2(w).String())
	}
	return fmt.Sprintf("(and (<= (- %s) %s) (< %s %s))", pow2(w-1).String(), term, term, pow2(w-1).String())
}

func sand(xs ...string) string {
	var ys []string
	for _, x := range xs {
		if x == "" || x == "true" {
			continue
		}
		if x == "false" {
			return "false"
		}
		ys = append(ys, x)
	}
	switch len(ys) {
	case 0:
		return "true"
	case 1:
		return ys[0]
	}
	return "(and " + strings.Join(ys, " ") + ")"
}

func sor(xs ...string) string {
	var ys []string
	for _, x := range xs {
		if x == "" || x == "false" {
			continue
		}
		if x == "true" {
			return "true"
		}
		ys = append(ys, x)
	}
	switch len(ys) {
	case 0:
		return "false"
	case 1:
		return ys[0]
	}
	return "(or " + strings.Join(ys, " ") + ")"
}

func snot(x string) string {
	switch x {
	case "true":
		return "false"
	case "false":
		return "true"
	}
	return "(not " + x + ")"
}

func simp(a, b string) string {
	if a == "true" {
		return b
	}
	if b == "true" || a == "false" {
		return "true"
	}
	return "(=> " + a + " " + b + ")"
}

func site(c, a, b string) string {
	if a == b {
		return a
	}
	if c == "true" {
		return a
	}
	if c == "false" {
		return b
	}
	return "(ite " + c + " " + a + " " + b + ")"
}

func seq(a, b string) string {
	if a == b {
		return "true"
	}
	return "(= " + a + " " + b + ")"
}

func quoteSym(s string) string {
	if strings.ContainsAny(s, "|\\") {
		s = strings.NewReplacer("|", "!", "\\", "!").Replace(s)
	}
	for _, c := range s {
		if !(c >= 'a' && c <= 'z' || c >= 'A' && c <= 'Z' || c >= '0' && c <= '9' || c == '_' || c == '!' || c == '.' || c == '$') {
			return "|" + s + "|"
		}
	}
	if s == "" || (s[0] >= '0' && s[0] <= '9') {
		return "|" + s + "|"
	}
	return s
}

#!/usr/bin/env python3
# prints the prompt given to a fresh sub-agent for seeding a property-breaking change: property text only, own worktree
import json,sys
pid, wt = sys.argv[1], sys.argv[2]
extra = sys.argv[3] if len(sys.argv)>3 else ""
p=[json.loads(l) for l in open('/verif/properties.jsonl') if json.loads(l)['id']==pid][0]
print(f"""You are testing how well a verification setup detects regressions in baidu/bfe (a Go layer-7 load balancer). Your job: make ONE realistic change to the source code that BREAKS the property below while the repository still compiles and its existing tests still pass, and demonstrate the breakage.

Work ONLY inside the git worktree {wt} (a checkout of the repository). Do not read or write /verif or /repo. Do NOT read any file named zz_verif_contracts.go (they are comment-only and irrelevant to you). There is no network. In every shell call first run: export GOFLAGS=-mod=mod GOPROXY=off GOSUMDB=off GOTOOLCHAIN=local

PROPERTY {pid}: {p['title']}
{p['statement']}
(Quantified over: {p['quantifier']['text']})
Anchor files: {', '.join(p['anchors']['files'])}

Requirements for the change:
- It must look like a plausible maintainer edit (optimisation, refactor, small feature, "fix"), not sabotage; keep it small (one or two sites).
- It must need something SPECIFIC to manifest: an unusual input, a particular multi-step sequence, a boundary value, or two cooperating sites that each look fine alone. Ordinary use and the existing tests must not expose it.
- The repository must still build (go build ./... in the worktree) and the package's existing tests must still pass. NEVER run `go test ./bfe_tls/` unfiltered (one test hangs); run tests only for the package(s) you touched, with -timeout 300s.
- Edit only non-test .go source files of the repository (no test files, no docs, no generated y.go unless the property is about the parser).
{extra}
Deliverables, all inside {wt}/SEED/ (create the directory):
1. patch.diff  — `git diff` of your source change (made from the worktree root, so that `git apply SEED/patch.diff` works on a clean checkout). Do not include SEED/ or test files in it.
2. demo_test.go — an in-package Go test file (same package as the code you changed, package clause included) containing exactly one test function named TestSeedDemo that FAILS with your change and PASSES without it. It will be copied into the package directory of the changed file as zz_seed_demo_test.go and run with: go test -vet=off -count=1 -timeout 120s -run '^TestSeedDemo$' ./<pkgdir>/
3. meta.json — {{"property": "{pid}", "pkgdir": "<package directory of demo_test.go relative to the repo root>", "summary": "<what you changed and why it breaks the property>", "needs": "<what is needed for it to manifest>", "ran": ["<commands you ran and their outcomes>"]}}

Before finishing, verify yourself: (a) with the change applied, go build ./... succeeds and the touched package's existing tests pass; (b) TestSeedDemo fails with the change; (c) after reverting the change with `git apply -R SEED/patch.diff` (do NOT use `git stash`: the stash is shared with other checkouts), TestSeedDemo passes; then re-apply it with `git apply SEED/patch.diff`. Leave the worktree with the change APPLIED and no stray test file in the package directory. Reply with a three-line summary (file changed, what breaks, pkgdir).""")

#!/bin/bash
# runs every claimed check (quick) on the current tree, in parallel (4 at a time); prints one line per property
cd /verif
ids=$(jq -r '.checks[].property_id' MANIFEST.json)
run() { out=$(./check $1 quick 2>&1); rc=$?; echo "$1 rc=$rc $(echo "$out" | tail -1)"; [ $rc -ne 0 ] && echo "$out" | grep -E "VIOLATION|ERROR" | head -5; }
export -f run
echo $ids | tr ' ' '\n' | xargs -P 3 -I{} bash -c 'run {}'

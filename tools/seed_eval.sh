#!/bin/bash
# usage: seed_eval.sh <prop id> <worktree> <pkgdir> <name>
# Confirms a sub-agent's seeded change (stable tests pass with it, demo fails with / passes without),
# stores it under /verif/seeded/<name>/, then runs ./check <id> against /repo with the patch applied.
set -u
export GOFLAGS=-mod=mod GOPROXY=off GOSUMDB=off GOTOOLCHAIN=local
id=$1; wt=$2; pkg=$3; name=$4
dst=/verif/seeded/$name; mkdir -p $dst
cp $wt/SEED/patch.diff $wt/SEED/demo_test.go $wt/SEED/meta.json $dst/ 2>/dev/null
cd $wt || exit 2
git checkout -q -- . ; git clean -fdq -e SEED
log=$dst/confirm.log; : > $log
run_demo() { cp SEED/demo_test.go $pkg/zz_seed_demo_test.go; go test -vet=off -count=1 -timeout 120s -run '^TestSeedDemo$' ./$pkg/ >> $log 2>&1; rc=$?; rm -f $pkg/zz_seed_demo_test.go; return $rc; }
echo "== demo WITHOUT patch" >> $log; run_demo; without=$?
git apply SEED/patch.diff || { echo "patch does not apply"; exit 2; }
echo "== build WITH patch" >> $log; go build ./... >> $log 2>&1; build=$?
echo "== demo WITH patch" >> $log; run_demo; with=$?
pat=$(jq -r --arg p "github.com/bfenetworks/bfe/$pkg::" '.stable_pass[] | select(startswith($p)) | sub(".*::";"")' /root/.vp/BASELINE.json | paste -sd'|')
echo "== stable tests WITH patch" >> $log; go test -vet=off -count=1 -timeout 300s -run "^($pat)\$" ./$pkg/ >> $log 2>&1; stable=$?
git checkout -q -- .
echo "confirm: build=$build demo_without_patch=$without (want 0) demo_with_patch=$with (want !=0) stable_tests_with_patch=$stable (want 0)"
if [ $build -ne 0 ] || [ $without -ne 0 ] || [ $with -eq 0 ] || [ $stable -ne 0 ]; then echo "SEED NOT CONFIRMED"; exit 3; fi
# now against our checks: the patch is applied to a scratch worktree of /repo's HEAD plus the uncommitted contract
# files of the working tree (GOVC_REPO), never to /repo itself
sw=/tmp/se_$name; rm -rf $sw; git -C /repo worktree add -q --detach $sw HEAD || { echo "worktree failed"; exit 2; }
(cd /repo && git ls-files -m -o --exclude-standard | grep zz_verif_contracts.go | while read f; do mkdir -p $sw/$(dirname $f); cp /repo/$f $sw/$f; done)
git -C $sw apply $dst/patch.diff || { echo "patch does not apply to /repo HEAD"; git -C /repo worktree remove --force $sw; exit 2; }
cd /verif && GOVC_REPO=$sw govc/bin/govc check -prop $id -tier quick -no-evidence > $dst/check.out 2>&1; crc=$?
git -C /repo worktree remove --force $sw
echo "check exit=$crc"; grep -E "VIOLATION|^$id:" $dst/check.out | head -8
python3 - "$dst" "$id" "$crc" <<'PY'
import json,sys
d,pid,crc=sys.argv[1],sys.argv[2],int(sys.argv[3])
m=json.load(open(d+'/meta.json'))
m['confirmed']={'build_ok':True,'demo_fails_with_patch':True,'demo_passes_without_patch':True,'stable_tests_pass_with_patch':True}
out=open(d+'/check.out').read()
m['check']={'cmd':'./check %s quick (patch applied to /repo, then reverted)'%pid,'exit':crc,'violations':[l for l in out.splitlines() if l.startswith('VIOLATION')][:6],'caught':crc==1}
json.dump(m,open(d+'/meta.json','w'),indent=1)
PY

#!/bin/bash
# Must-fail self-test: every seeded change under /verif/seeded/ (and nothing else) is applied to a scratch
# worktree of /repo's HEAD, the property's check is run against that worktree (GOVC_REPO), and must exit 1.
# usage: tools/seeds_regress.sh [name-pattern]      (4 in parallel; scratch worktrees under /tmp are removed)
export GOFLAGS=-mod=mod GOPROXY=off GOSUMDB=off GOTOOLCHAIN=local
cd /verif
pat="${1:-.}"
one() {
  name=$1; d=/verif/seeded/$name; id=$(jq -r .property $d/meta.json)
  wt=/tmp/sr_$name; rm -rf $wt; git -C /repo worktree add -q --detach $wt HEAD 2>/dev/null || { echo "$name: worktree failed"; return; }
  if ! git -C $wt apply $d/patch.diff 2>/dev/null; then echo "$name $id PATCH-DOES-NOT-APPLY"; else
    out=$(GOVC_REPO=$wt govc/bin/govc check -prop $id -tier quick -no-evidence 2>&1); rc=$?
    n=$(echo "$out" | grep -c '^VIOLATION')
    if [ $rc -eq 1 ]; then echo "$name $id caught ($n violations): $(echo "$out" | grep -m1 '^VIOLATION' | sed 's/.*replay=[^ ]*\/\([^/ ]*\)\.txt.*/\1/')"; else echo "$name $id MISSED rc=$rc: $(echo "$out" | tail -1)"; fi
  fi
  git -C /repo worktree remove --force $wt
}
export -f one
ls /verif/seeded | grep -E "$pat" | xargs -P 4 -I{} bash -c 'one {}'

#!/bin/bash
# usage: stable_tests.sh <pkg dir relative to /repo> ...   runs exactly the baseline's stable tests of those packages
export GOFLAGS=-mod=mod GOPROXY=off GOSUMDB=off GOTOOLCHAIN=local
rc=0
for d in "$@"; do
  pkg="github.com/bfenetworks/bfe/${d#./}"; pkg="${pkg%/}"
  pat=$(jq -r --arg p "$pkg::" '.stable_pass[] | select(startswith($p)) | sub(".*::";"")' /root/.vp/BASELINE.json | paste -sd'|')
  [ -z "$pat" ] && { echo "no stable tests for $pkg"; continue; }
  (cd /repo && go test -vet=off -count=1 -timeout 300s -run "^($pat)\$" "./${d#./}") || rc=1
done
exit $rc

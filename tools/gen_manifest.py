#!/usr/bin/env python3
# Regenerates /verif/MANIFEST.json from tools/claims.json (claimed checks) and the fixed not-applicable reasons.
import json, subprocess
claims = json.load(open('/verif/tools/claims.json'))
na_reasons = json.load(open('/verif/tools/not_applicable.json'))
base = json.load(open('/root/.vp/BASELINE.json'))
hooks = subprocess.run(['git','-C','/repo','log','--format=%h %s'],capture_output=True,text=True).stdout.splitlines()
hook_commits = [l.split()[0] for l in hooks if l.split(' ',1)[1].startswith('verif:')]
checks=[]
try:
    bounded = {b["prop"] for b in json.load(open("/verif/bounded/index.json")) if b.get("role") != "cross-check"}
except Exception:
    bounded = set()
for pid in sorted(claims):
    c = claims[pid]
    if pid in bounded:
        c.setdefault("category", "exploration")
        c.setdefault("technique", "contract-based deductive verification (weakest-precondition VCs from go/ssa of the real functions, //@ contracts, z3/cvc5) for the functions named as PROVED; a BOUNDED exhaustive run of the real code against an executable oracle stands in for the part named as BOUNDED")
    checks.append({
        "property_id": pid,
        "quick_cmd": f"./check {pid} quick",
        "thorough_cmd": f"./check {pid} thorough",
        "evidence_file": f"/verif/evidence/{pid}.json",
        "replay_cmd_template": "./check --replay {path}",
        "engine": "govc",
        "level_claimed": {"category": c.get("category","proof"), "text": c["text"], "design_ref": c.get("design_ref","DESIGN.md §7 "+pid)},
        "level_note": c["note"],
        "technique": c.get("technique","contract-based deductive verification: weakest-precondition VCs generated from go/ssa of the real functions, contracts in //@ comments, discharged by z3/cvc5"),
    })
na=[]
for i in range(1,57):
    pid="C%02d"%i
    if pid in claims: continue
    na.append({"property_id":pid,"reason":na_reasons.get(pid,"planned (DESIGN §7) but its check is not built yet; not claimed until its obligations discharge on the unchanged tree")})
m={"version":1,
 "setup_cmd":"make -C /verif/govc build",
 "hooks":{"guard":"verif","enable":"go/packages loads /repo with -tags=verif; the only hook files are comment-only zz_verif_contracts.go (//go:build verif)","baseline_off_cmd":base["cmd"],"source_commits":hook_commits,"add_only":True},
 "engines":[{"name":"govc","path":"/verif/govc","serves_properties":sorted(claims),"kind_free_text":"self-written VC generator (go/packages+go/types+go/ssa of /repo's working tree, Gobra-style //@ contracts) discharging obligations with z3 4.8.12 / z3 5.1.0 / cvc5 1.0.3; counterexamples replayed on the real code via go test -overlay"}],
 "checks":checks,
 "not_applicable":na,
 "notes":"See DESIGN.md. Genuine defects found by the checks are fixed in /repo (fix: commits) or listed in known_findings.txt."}
json.dump(m,open('/verif/MANIFEST.json','w'),indent=1)
print(len(checks),"claimed;",len(na),"not applicable")

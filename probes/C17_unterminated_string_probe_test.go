package condition

import "testing"

func TestProbeUnterminatedString(t *testing.T) {
	for _, s := range []string{"\"", "req_host_in(\"", "`", "req_host_in(`abc"} {
		func() {
			defer func() {
				if r := recover(); r != nil {
					t.Errorf("Build(%q) panicked: %v", s, r)
				}
			}()
			_, err := Build(s)
			t.Logf("Build(%q) err=%v", s, err)
		}()
	}
}

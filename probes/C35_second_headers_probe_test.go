package bfe_http2

import (
	"fmt"
	"runtime/debug"
	"strings"
	"sync"
	"testing"
	"time"

	"github.com/baidu/go-lib/web-monitor/metrics"

	http "github.com/bfenetworks/bfe/bfe_http"
)

// probe35Result describes what the server did with the second HEADERS frame.
type probe35Result struct {
	panicVal   interface{} // non-nil if serverConn.serve panicked (seen by notePanic)
	panicStack string
	panicConn  int64  // delta of state.H2PanicConn
	frame      Frame  // first frame the server sent after the second HEADERS (if any)
	readErr    error  // error reading that frame (if any)
	served     bool   // serve loop exited
	desc       string // human summary of frame
}

// probe35Run opens stream 1 with a bodiless request (HEADERS with
// END_STREAM|END_HEADERS), waits until the handler is running (and blocked),
// checks the stream is half-closed (remote) and still in sc.streams, then
// sends a second HEADERS frame on stream 1 built by mkSecond and reports what
// the server did.
func probe35Run(t *testing.T, secondEndStream bool, mkSecond func(st *serverTester) []byte) probe35Result {
	var res probe35Result

	// state.H2PanicConn is a nil *metrics.Counter in unit tests (Inc on nil is
	// a no-op), so install a real counter for the duration of the probe.
	savedCounter := state.H2PanicConn
	state.H2PanicConn = new(metrics.Counter)
	defer func() { state.H2PanicConn = savedCounter }()

	inHandler := make(chan struct{})
	unblock := make(chan struct{})
	st := newServerTester(t, func(w http.ResponseWriter, r *http.Request) {
		close(inHandler)
		<-unblock // keep stream 1 open at the server until the probe is over
	})
	defer st.Close()
	defer close(unblock)

	var (
		panMu      sync.Mutex
		panicVal   interface{}
		panicStack string
	)
	testHookOnPanicMu.Lock()
	testHookOnPanic = func(sc *serverConn, pv interface{}) bool {
		panMu.Lock()
		panicVal = pv
		// We are running inside the deferred notePanic while the serve
		// goroutine is still panicking, so this stack includes the
		// panicking frames.
		panicStack = string(debug.Stack())
		panMu.Unlock()
		return false // do not re-panic: that would kill the test binary
	}
	testHookOnPanicMu.Unlock()
	defer resetHooks()

	st.greet()

	// First HEADERS on stream 1: END_STREAM | END_HEADERS (bodiless GET).
	st.bodylessReq1()

	select {
	case <-inHandler:
	case <-time.After(5 * time.Second):
		t.Fatalf("setup: handler for stream 1 never started")
	}

	// Setup sanity: stream 1 is registered, half-closed (remote), and has no body pipe.
	if got := st.streamState(1); got != stateHalfClosedRemote {
		t.Fatalf("setup: stream 1 state = %v; want %v", got, stateHalfClosedRemote)
	}
	type snap struct {
		present bool
		bodyNil bool
	}
	snapc := make(chan snap, 1)
	st.sc.testHookCh <- func(int) {
		s := st.sc.streams[1]
		if s == nil {
			snapc <- snap{}
			return
		}
		snapc <- snap{present: true, bodyNil: s.body == nil}
	}
	sn := <-snapc
	if !sn.present {
		t.Fatalf("setup: stream 1 not in sc.streams while its handler is blocked")
	}
	t.Logf("before 2nd HEADERS: stream 1 in sc.streams, state=%v, st.body==nil: %v",
		stateHalfClosedRemote, sn.bodyNil)

	// Second HEADERS on the same (half-closed remote) stream.
	st.writeHeaders(HeadersFrameParam{
		StreamID:      1,
		BlockFragment: mkSecond(st),
		EndStream:     secondEndStream,
		EndHeaders:    true,
	})

	res.frame, res.readErr = st.readFrame()

	// If reading failed (conn dropped), give the serve goroutine time to finish
	// its deferred notePanic.
	select {
	case <-st.sc.doneServing:
		res.served = true
		// doneServing is closed by a defer that runs BEFORE notePanic; wait
		// for the hook/counter to be updated.
		deadline := time.Now().Add(2 * time.Second)
		for time.Now().Before(deadline) {
			panMu.Lock()
			done := panicVal != nil
			panMu.Unlock()
			if done {
				break
			}
			time.Sleep(10 * time.Millisecond)
		}
	case <-time.After(300 * time.Millisecond):
	}

	panMu.Lock()
	res.panicVal = panicVal
	res.panicStack = panicStack
	panMu.Unlock()
	res.panicConn = state.H2PanicConn.Get()

	switch f := res.frame.(type) {
	case nil:
		res.desc = fmt.Sprintf("no frame (read error: %v)", res.readErr)
	case *RSTStreamFrame:
		res.desc = fmt.Sprintf("RST_STREAM stream=%d code=%v", f.StreamID, f.ErrCode)
	case *GoAwayFrame:
		res.desc = fmt.Sprintf("GOAWAY last=%d code=%v debug=%q", f.LastStreamID, f.ErrCode, f.DebugData())
	default:
		res.desc = fmt.Sprintf("%T %v", f, f.Header())
	}
	return res
}

// probe35Excerpt keeps only the interesting part of a goroutine stack.
func probe35Excerpt(stack string) string {
	var out []string
	lines := strings.Split(stack, "\n")
	for i := 0; i < len(lines); i++ {
		l := lines[i]
		if strings.Contains(l, "panic(") ||
			strings.Contains(l, "sigpanic") ||
			strings.Contains(l, "sync.(*Mutex)") ||
			strings.Contains(l, "pipe.(*Pipe)") ||
			strings.Contains(l, "endStream") ||
			strings.Contains(l, "processTrailerHeaders") ||
			strings.Contains(l, "processHeaders") ||
			strings.Contains(l, "processFrame") ||
			strings.Contains(l, "(*serverConn).serve") {
			out = append(out, l)
			if i+1 < len(lines) {
				out = append(out, lines[i+1])
				i++
			}
		}
	}
	return strings.Join(out, "\n")
}

// TestProbeSecondHeadersOnHalfClosedStream: RFC 7540 section 5.1 says a HEADERS
// frame received on a half-closed (remote) stream must be answered with a
// stream error of type STREAM_CLOSED. The server must in any case not panic
// internally on the serve goroutine.
func TestProbeSecondHeadersOnHalfClosedStream(t *testing.T) {
	// Main case: the second HEADERS frame looks like a trailer block
	// (END_STREAM|END_HEADERS, no pseudo-header fields), which is the only
	// shape that gets through processTrailerHeaders' checks to endStream().
	t.Run("EndStream_TrailerShaped", func(t *testing.T) {
		res := probe35Run(t, true, func(st *serverTester) []byte {
			return st.encodeHeaderRaw("x-probe", "35")
		})
		t.Logf("server answered 2nd HEADERS with: %s; serve loop exited: %v; H2PanicConn delta: %d",
			res.desc, res.served, res.panicConn)
		if res.panicVal != nil || res.panicConn != 0 {
			t.Fatalf("DEFECT: serve goroutine panicked on 2nd HEADERS(END_STREAM) for half-closed(remote) stream 1\n"+
				"panic value: %v\nH2PanicConn delta: %d\nstack excerpt:\n%s",
				res.panicVal, res.panicConn, probe35Excerpt(res.panicStack))
		}
		if res.readErr != nil {
			t.Fatalf("connection dropped without RST_STREAM/GOAWAY: %v", res.readErr)
		}
		rs, ok := res.frame.(*RSTStreamFrame)
		if !ok || rs.StreamID != 1 || rs.ErrCode != ErrCodeStreamClosed {
			// Not an internal panic, so not the defect under probe; only note it.
			t.Logf("note: want RST_STREAM(stream 1, STREAM_CLOSED) per RFC 7540 5.1; got %s", res.desc)
		}
	})

	// Informational: a completely empty header block never reaches
	// processHeaders (parseHeadersFrame rejects it: "HEADERS without fragment").
	t.Run("EndStream_EmptyBlock", func(t *testing.T) {
		res := probe35Run(t, true, func(st *serverTester) []byte { return nil })
		t.Logf("server answered 2nd HEADERS with: %s; serve loop exited: %v; H2PanicConn delta: %d",
			res.desc, res.served, res.panicConn)
		if res.panicVal != nil || res.panicConn != 0 {
			t.Fatalf("DEFECT: serve goroutine panicked on empty 2nd HEADERS(END_STREAM)\npanic value: %v\nstack excerpt:\n%s",
				res.panicVal, probe35Excerpt(res.panicStack))
		}
		if res.readErr != nil {
			t.Fatalf("connection dropped without RST_STREAM/GOAWAY: %v", res.readErr)
		}
	})

	// Informational: the second HEADERS is a full request header block again
	// (:method/:path/:scheme) with END_STREAM.
	t.Run("EndStream_RequestShaped", func(t *testing.T) {
		res := probe35Run(t, true, func(st *serverTester) []byte { return st.encodeHeader() })
		t.Logf("server answered 2nd HEADERS with: %s; serve loop exited: %v; H2PanicConn delta: %d",
			res.desc, res.served, res.panicConn)
		if res.panicVal != nil || res.panicConn != 0 {
			t.Fatalf("DEFECT: serve goroutine panicked\npanic value: %v\nstack excerpt:\n%s",
				res.panicVal, probe35Excerpt(res.panicStack))
		}
	})

	// Informational: second HEADERS WITHOUT END_STREAM (trailer shaped).
	t.Run("NoEndStream_TrailerShaped", func(t *testing.T) {
		res := probe35Run(t, false, func(st *serverTester) []byte {
			return st.encodeHeaderRaw("x-probe", "35")
		})
		t.Logf("server answered 2nd HEADERS with: %s; serve loop exited: %v; H2PanicConn delta: %d",
			res.desc, res.served, res.panicConn)
		if res.panicVal != nil || res.panicConn != 0 {
			t.Fatalf("DEFECT: serve goroutine panicked\npanic value: %v\nstack excerpt:\n%s",
				res.panicVal, probe35Excerpt(res.panicStack))
		}
	})

	// Informational: second HEADERS WITHOUT END_STREAM (request shaped).
	t.Run("NoEndStream_RequestShaped", func(t *testing.T) {
		res := probe35Run(t, false, func(st *serverTester) []byte { return st.encodeHeader() })
		t.Logf("server answered 2nd HEADERS with: %s; serve loop exited: %v; H2PanicConn delta: %d",
			res.desc, res.served, res.panicConn)
		if res.panicVal != nil || res.panicConn != 0 {
			t.Fatalf("DEFECT: serve goroutine panicked\npanic value: %v\nstack excerpt:\n%s",
				res.panicVal, probe35Excerpt(res.panicStack))
		}
	})
}

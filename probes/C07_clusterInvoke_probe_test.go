// Probe tests for (*ReverseProxy).clusterInvoke. Each test fails on the
// defective code and passes once the corresponding defect is repaired.

package bfe_server

import (
	"errors"
	"fmt"
	"net"
	"net/url"
	"reflect"
	"testing"
	"time"
)

import (
	"github.com/bfenetworks/bfe/bfe_balance"
	"github.com/bfenetworks/bfe/bfe_basic"
	"github.com/bfenetworks/bfe/bfe_config/bfe_cluster_conf/cluster_conf"
	"github.com/bfenetworks/bfe/bfe_config/bfe_cluster_conf/cluster_table_conf"
	"github.com/bfenetworks/bfe/bfe_config/bfe_cluster_conf/gslb_conf"
	"github.com/bfenetworks/bfe/bfe_fcgi"
	"github.com/bfenetworks/bfe/bfe_http"
	"github.com/bfenetworks/bfe/bfe_module"
	"github.com/bfenetworks/bfe/bfe_route/bfe_cluster"
)

const probe07Cluster = "probe07_cluster"

// probe07RoundTripper is a fake transport returning a fixed result.
type probe07RoundTripper struct {
	calls int
	res   *bfe_http.Response
	err   error
}

func (rt *probe07RoundTripper) RoundTrip(req *bfe_http.Request) (*bfe_http.Response, error) {
	rt.calls++
	return rt.res, rt.err
}

// probe07FillPointers allocates every nil pointer field of the struct pointed by v.
func probe07FillPointers(v interface{}) {
	s := reflect.ValueOf(v).Elem()
	for i := 0; i < s.NumField(); i++ {
		f := s.Field(i)
		if f.Kind() == reflect.Ptr && f.IsNil() && f.CanSet() {
			f.Set(reflect.New(f.Type().Elem()))
		}
	}
}

// probe07Setup builds a server / proxy / cluster / request with one cluster, one
// sub-cluster and one available backend (weight > 0).
func probe07Setup(t *testing.T, rt bfe_http.RoundTripper) (
	*BfeServer, *ReverseProxy, *bfe_cluster.BfeCluster, *bfe_basic.Request) {
	// cluster with default conf
	clusterConf := cluster_conf.ClusterConf{}
	if err := cluster_conf.ClusterConfCheck(&clusterConf); err != nil {
		t.Fatalf("setup: ClusterConfCheck(): %v", err)
	}
	cluster := bfe_cluster.NewBfeCluster(probe07Cluster)
	cluster.BasicInit(clusterConf)

	// balance table: one sub-cluster, one backend
	// Note: a nil CheckConfFetcher disables health check in backend.OnFail()
	balTable := bfe_balance.NewBalTable(nil)
	gslbClusters := gslb_conf.GslbClustersConf{
		probe07Cluster: gslb_conf.GslbClusterConf{"sub0": 100},
	}
	hostname, ts, version := "probe07", "20200101000000", "v1"
	gslbConf := gslb_conf.GslbConf{Clusters: &gslbClusters, Hostname: &hostname, Ts: &ts}

	name, addr, port, weight := "backend0", "127.0.0.1", 1, 10
	allBackends := cluster_table_conf.AllClusterBackend{
		probe07Cluster: cluster_table_conf.ClusterBackend{
			"sub0": cluster_table_conf.SubClusterBackend{
				&cluster_table_conf.BackendConf{Name: &name, Addr: &addr, Port: &port, Weight: &weight},
			},
		},
	}
	tableConf := cluster_table_conf.ClusterTableConf{Version: &version, Config: &allBackends}
	if err := balTable.BalTableReload(gslbConf, tableConf); err != nil {
		t.Fatalf("setup: BalTableReload(): %v", err)
	}
	bal, err := balTable.Lookup(probe07Cluster)
	if err != nil {
		t.Fatalf("setup: balTable.Lookup(): %v", err)
	}
	bal.SetGslbBasic(*cluster.GslbBasic)

	// server and reverse proxy
	srv := new(BfeServer)
	srv.CallBacks = bfe_module.NewBfeCallbacks()
	srv.balTable = balTable

	state := new(ProxyState)
	probe07FillPointers(state)
	p := NewReverseProxy(srv, state)
	srv.ReverseProxy = p
	if rt != nil {
		p.transports[cluster.Name] = rt
	}

	// request
	remote := &net.TCPAddr{IP: net.ParseIP("10.1.2.3"), Port: 12345}
	newHttpReq := func() *bfe_http.Request {
		return &bfe_http.Request{
			Method:     "GET",
			URL:        &url.URL{Scheme: "http", Host: "example.org", Path: "/"},
			Proto:      "HTTP/1.1",
			ProtoMajor: 1,
			ProtoMinor: 1,
			Header:     make(bfe_http.Header),
			Host:       "example.org",
			RequestURI: "/",
			State:      new(bfe_http.RequestState),
		}
	}
	session := bfe_basic.NewSession(nil)
	session.RemoteAddr = remote
	request := bfe_basic.NewRequest(newHttpReq(), nil, bfe_basic.NewRequestStat(time.Now()), session, nil)
	request.OutRequest = newHttpReq()
	request.RemoteAddr = remote
	request.ClientAddr = remote
	request.Backend.ClusterName = cluster.Name

	return srv, p, cluster, request
}

// Defect A: a forward filter returning BfeHandlerFinish makes clusterInvoke return
// before backend.IncConnNum(), while request.Trans.Backend is already set; the
// deferred DecConnNum() in FinishReq then drives ConnNum() negative.
func TestProbeForwardFinishConnNum(t *testing.T) {
	rt := &probe07RoundTripper{err: errors.New("transport must not be used")}
	srv, p, cluster, request := probe07Setup(t, rt)

	filterCalls := 0
	filter := func(req *bfe_basic.Request) int {
		filterCalls++
		return bfe_module.BfeHandlerFinish
	}
	if err := srv.CallBacks.AddFilter(bfe_module.HandleForward, filter); err != nil {
		t.Fatalf("setup: AddFilter(): %v", err)
	}

	// the (only) backend of the cluster
	bal, _ := srv.balTable.Lookup(cluster.Name)
	backend, err := bal.Balance(request)
	if err != nil || backend == nil {
		t.Fatalf("setup: Balance(): backend=%v err=%v", backend, err)
	}
	if n := backend.ConnNum(); n != 0 {
		t.Fatalf("setup: initial ConnNum() = %d, want 0", n)
	}

	_, action, err := p.clusterInvoke(srv, cluster, request, nil)
	if filterCalls != 1 {
		t.Fatalf("setup: forward filter called %d times, want 1 (err=%v)", filterCalls, err)
	}
	if action != closeAfterReply {
		t.Fatalf("setup: action = %d, want closeAfterReply(%d)", action, closeAfterReply)
	}
	if rt.calls != 0 {
		t.Fatalf("setup: transport used %d times, want 0", rt.calls)
	}
	if request.Trans.Backend != nil && request.Trans.Backend != backend {
		t.Fatalf("setup: unexpected backend %v selected", request.Trans.Backend)
	}

	p.FinishReq(nil, request)

	if n := backend.ConnNum(); n != 0 {
		t.Errorf("backend ConnNum() = %d after clusterInvoke(forward filter Finish) + FinishReq, want 0", n)
	}
}

// Defect B: a bfe_fcgi.WriteRequestError returned by the transport is matched by
// `case bfe_http.WriteRequestError, bfe_fcgi.WriteRequestError:` and then
// unconditionally asserted to bfe_http.WriteRequestError, which panics.
func TestProbeFcgiWriteRequestErrorNoPanic(t *testing.T) {
	rt := &probe07RoundTripper{err: bfe_fcgi.WriteRequestError{Err: errors.New("x")}}
	srv, p, cluster, request := probe07Setup(t, rt)

	var panicked interface{}
	var err error
	func() {
		defer func() {
			panicked = recover()
		}()
		_, _, err = p.clusterInvoke(srv, cluster, request, nil)
	}()

	if rt.calls == 0 {
		t.Fatalf("setup: transport was never used (err=%v, panic=%v)", err, panicked)
	}
	if panicked != nil {
		t.Fatalf("clusterInvoke panicked on bfe_fcgi.WriteRequestError: %s", fmt.Sprint(panicked))
	}
	if _, ok := err.(bfe_fcgi.WriteRequestError); !ok {
		t.Errorf("err = %v (%T), want bfe_fcgi.WriteRequestError", err, err)
	}
	if request.ErrCode != bfe_basic.ErrBkWriteRequest {
		t.Errorf("request.ErrCode = %v, want %v", request.ErrCode, bfe_basic.ErrBkWriteRequest)
	}
}

package bfe_spdy

import (
	"errors"
	"testing"
	"time"
)

import (
	"github.com/baidu/go-lib/gotrack"
)

import (
	http "github.com/bfenetworks/bfe/bfe_http"
	"github.com/bfenetworks/bfe/bfe_util/pipe"
)

// TestProbeBodyWriteErrorRefundsConnWindow checks that when processData has
// charged a DATA frame against the inbound flow-control windows and the write
// into the request body pipe then fails (the handler already closed the body),
// the connection-level credit for the bytes that never reached the body is
// given back. Those bytes will never be read by a handler, so noteBodyRead
// will never refund them; unless processData refunds them itself the session
// window shrinks permanently.
func TestProbeBodyWriteErrorRefundsConnWindow(t *testing.T) {
	t.Run("direct", probe40Direct)
	t.Run("endToEnd", probe40EndToEnd)
}

// probe40Direct drives (*serverConn).processData on a hand-built serverConn.
// Everything runs on this goroutine, which is the one that owns serveG.
func probe40Direct(t *testing.T) {
	const streamID = 1
	const n = 1000 // DATA payload size per frame
	const rounds = 3

	sc := &serverConn{
		streams:           make(map[uint32]*stream),
		sendChan:          make(chan frameWriteMsg, 1), // lets a (fixed) sendWindowUpdate start a frame write
		wroteChan:         make(chan frameWriteResult, 1),
		doneServing:       make(chan struct{}),
		writeSched:        writeScheduler{maxFrameSize: defaultMaxWriteFrameSize},
		initialWindowSize: initialWindowSize,
		serveG:            gotrack.NewGoroutineLock(),
	}
	sc.flow.add(initialWindowSize)
	sc.inflow.add(initialWindowSize)
	// Pretend other streams are open so closeStream never takes the
	// "connection became idle" path, which needs a real net.Conn.
	sc.curOpenStreams = 100

	newOpenStreamWithClosedBody := func(id uint32) *stream {
		st := &stream{
			id:            id,
			state:         stateOpen,
			body:          pipe.NewPipeFromBufferPool(&fixBufferPool), // as newWriterAndRequest does
			declBodyBytes: -1,
		}
		st.cw.Init()
		st.flow.conn = &sc.flow
		st.flow.add(initialWindowSize)
		st.inflow.conn = &sc.inflow
		st.inflow.add(initialWindowSize)
		// What RequestBody.Close() does when the handler abandons the body.
		st.body.CloseWithError(errors.New("handler gone"))
		sc.streams[id] = st
		sc.curOpenStreams++
		return st
	}

	// Sanity: the pipe really rejects writes in this state, writing 0 bytes.
	probe := pipe.NewPipeWithSize(16)
	probe.CloseWithError(errors.New("handler gone"))
	if w, err := probe.Write([]byte("x")); err == nil || w != 0 {
		t.Fatalf("setup: closed pipe Write = (%d, %v); want (0, error)", w, err)
	}

	start := sc.inflow.n
	for i := 0; i < rounds; i++ {
		st := newOpenStreamWithClosedBody(uint32(streamID + 2*i))
		before := sc.inflow.n
		stBefore := st.inflow.n

		f := &DataFrame{StreamId: StreamId(st.id), Data: make([]byte, n)}
		err := sc.processData(f)

		se, ok := err.(StreamError)
		if !ok || se.Code != StreamAlreadyClosed || se.StreamID != st.id {
			t.Fatalf("round %d: processData err = %#v; want StreamError{%d, StreamAlreadyClosed} (body write did not fail as expected)",
				i, err, st.id)
		}
		if st.bodyBytes != 0 {
			t.Fatalf("round %d: st.bodyBytes = %d; want 0 (nothing reached the body)", i, st.bodyBytes)
		}
		if got := stBefore - st.inflow.n; got != n {
			t.Fatalf("round %d: stream window charged %d; want %d (setup: frame was not charged at all?)", i, got, n)
		}

		const wrote = 0 // closed pipe accepts nothing
		want := before - wrote
		if sc.inflow.n != want {
			t.Errorf("round %d: DEFECT: connection inflow window = %d after a failed body write of %d bytes (wrote %d); want %d. "+
				"%d bytes of session credit leaked: they never reached the body, so noteBodyRead will never refund them, "+
				"and no WINDOW_UPDATE(stream 0) was scheduled (zero-queue empty=%v, writingFrame=%v)",
				i, sc.inflow.n, n, wrote, want, want-sc.inflow.n, sc.writeSched.zero.empty(), sc.writingFrame)
		}

		// Mimic what serve() does with the StreamError, then complete any
		// in-flight frame writes so the next round can schedule again.
		sc.resetStream(se)
		probe40DrainWrites(sc)
	}
	if sc.inflow.n != start {
		t.Errorf("DEFECT: after %d failed body writes of %d bytes each the session window shrank from %d to %d (lost %d) and nothing will ever restore it",
			rounds, n, start, sc.inflow.n, start-sc.inflow.n)
	}
}

// probe40DrainWrites plays the role of the writeFrames goroutine for the
// hand-built conn: it acknowledges every started frame write until the
// scheduler is idle.
func probe40DrainWrites(sc *serverConn) {
	for sc.writingFrame {
		wm := <-sc.sendChan
		sc.wroteFrame(frameWriteResult{wm: wm})
	}
}

// probe40EndToEnd reproduces the same thing over a real connection: the
// handler closes the request body and stays alive (so the stream stays open),
// then the client sends DATA. The server must answer with RST_STREAM and must
// hand back the session-level credit with a WINDOW_UPDATE on stream 0.
func probe40EndToEnd(t *testing.T) {
	const n = 1000
	bodyClosed := make(chan struct{})
	release := make(chan struct{})
	st := newServerTester(t, func(w http.ResponseWriter, r *http.Request) {
		r.Body.Close()
		close(bodyClosed)
		<-release
	})
	defer st.Close()
	defer close(release)

	if err := st.greet(); err != nil {
		t.Fatalf("greet: %v", err)
	}
	hdr := make(http.Header)
	hdr.Set(headerMethod, "POST")
	if err := st.writeSynStream(1, hdr, false); err != nil {
		t.Fatalf("writeSynStream: %v", err)
	}
	select {
	case <-bodyClosed:
	case <-time.After(5 * time.Second):
		t.Fatalf("setup: handler never ran")
	}
	if err := st.writeData(1, make([]byte, n), false); err != nil {
		t.Fatalf("writeData: %v", err)
	}

	var gotRst bool
	var refunded uint32
	for !(gotRst && refunded >= n) {
		f, err := st.readFrame()
		if err != nil {
			break // timeout: nothing more is coming
		}
		switch f := f.(type) {
		case *RstStreamFrame:
			if f.StreamId != 1 || f.Status != StreamAlreadyClosed {
				t.Fatalf("got RST_STREAM{%d, %v}; want {1, StreamAlreadyClosed}", f.StreamId, f.Status)
			}
			gotRst = true
		case *WindowUpdateFrame:
			if f.StreamId == 0 {
				refunded += f.DeltaWindowSize
			}
		}
	}
	if !gotRst {
		t.Fatalf("setup: never got RST_STREAM(StreamAlreadyClosed); the body write did not fail")
	}
	if refunded != n {
		t.Errorf("DEFECT: server reset the stream after failing to buffer %d DATA bytes but sent WINDOW_UPDATE(stream 0) for only %d bytes; "+
			"the client's view of the session window is permanently %d bytes smaller", n, refunded, n-refunded)
	}
}

package cluster_table_conf

import (
	"os"
	"path/filepath"
	"testing"
)

// A decodable but malformed cluster table (a null backend entry) must be rejected with an error, not crash.
func TestProbeNullBackendEntry(t *testing.T) {
	dir := t.TempDir()
	f := filepath.Join(dir, "cluster_table.data")
	os.WriteFile(f, []byte(`{"Version":"v1","Config":{"cluster1":{"sub1":[null]}}}`), 0o644)
	defer func() {
		if r := recover(); r != nil {
			t.Errorf("ClusterTableLoad panicked on a null backend entry: %v", r)
		}
	}()
	if _, err := ClusterTableLoad(f); err == nil {
		t.Errorf("null backend entry accepted")
	}
}

package bfe_route

import (
	"os"
	"path/filepath"
	"testing"
)

// The documented configuration (docs/zh_cn/introduction/route.md): a basic rule whose target is
// ADVANCED_MODE defers to the product's advanced rules. Such a configuration must load.
func TestProbeAdvancedModeBasicRuleLoads(t *testing.T) {
	dir := t.TempDir()
	w := func(name, s string) string {
		p := filepath.Join(dir, name)
		os.WriteFile(p, []byte(s), 0o644)
		return p
	}
	host := w("host_rule.data", `{"Version":"1","DefaultProduct":null,"Hosts":{"tagA":["www.c.com"]},"HostTags":{"pa":["tagA"]}}`)
	vip := w("vip_rule.data", `{"Version":"1","Vips":{}}`)
	route := w("route_rule.data", `{"Version":"1","BasicRule":{"pa":[{"Hostname":["www.c.com"],"Path":["*"],"ClusterName":"ADVANCED_MODE"}]},"ProductRule":{"pa":[{"Cond":"default_t()","ClusterName":"cluster_d"}]}}`)
	cluster := w("cluster_conf.data", `{"Version":"1","Config":{"cluster_d":{"BackendConf":{"TimeoutConnSrv":2000,"TimeoutResponseHeader":50000,"MaxIdleConnsPerHost":0,"RetryLevel":0},"CheckConf":{"Schem":"http","Uri":"/","Host":"x","StatusCode":200,"FailNum":10,"CheckInterval":1000},"GslbBasic":{"CrossRetry":0,"RetryMax":2,"HashConf":{"HashStrategy":0,"HashHeader":"Cookie:UID","SessionSticky":false}},"ClusterBasic":{"TimeoutReadClient":30000,"TimeoutWriteClient":60000,"TimeoutReadClientAgain":30000,"ReqWriteBufferSize":512,"ReqFlushInterval":0,"ResFlushInterval":-1,"CancelOnClientClose":false}}}}`)
	if _, err := LoadServerDataConf(host, vip, route, cluster); err != nil {
		t.Errorf("documented configuration rejected: %v", err)
	}
}

package bfe_spdy

import (
	"bytes"
	"encoding/binary"
	"strings"
	"testing"
)

// A SPDY header name containing CR LF must not reach the HTTP/1.1 request written to the backend as an
// additional header line.
func TestProbeSpdyHeaderNameInjection(t *testing.T) {
	var b bytes.Buffer
	put := func(s string) { binary.Write(&b, binary.BigEndian, uint32(len(s))); b.WriteString(s) }
	binary.Write(&b, binary.BigEndian, uint32(1))
	put("x-a: 1\r\nx-injected")
	put("v")
	h, _, err := parseHeaderValueBlock(bytes.NewReader(b.Bytes()), 1)
	if err != nil {
		return // rejected: fine
	}
	var out bytes.Buffer
	h.Write(&out)
	if n := strings.Count(out.String(), "\r\n"); n != 1 {
		t.Errorf("one SPDY header field was written to the backend as %d header lines: %q", n, out.String())
	}
}

package bfe_route

import (
	"os"
	"path/filepath"
	"testing"

	"github.com/bfenetworks/bfe/bfe_config/bfe_route_conf/host_rule_conf"
)

// A host table whose meaning depends on map iteration order must be rejected (property C14).
// Each configuration below is loaded repeatedly; when it is accepted, the product found for the
// request host is recorded: more than one distinct answer for the same file is the failure.
func probeC14(t *testing.T, conf string, reqHost string) {
	dir := t.TempDir()
	p := filepath.Join(dir, "host_rule.data")
	os.WriteFile(p, []byte(conf), 0o644)
	seen := map[string]bool{}
	for i := 0; i < 200; i++ {
		hc, err := host_rule_conf.HostRuleConfLoad(p)
		if err != nil {
			return // rejected: fine
		}
		ht := newHostTable()
		ht.updateHostTable(hc)
		r, err := ht.findHostRoute(reqHost)
		if err != nil {
			seen["<none>"] = true
		} else {
			seen[r.product+"/"+r.tag] = true
		}
	}
	if len(seen) > 1 {
		t.Errorf("the same file gives different answers for host %q across loads: %v", reqHost, seen)
	} else {
		t.Logf("accepted; answers: %v", seen)
	}
}

func TestProbeHostsDifferingOnlyInCase(t *testing.T) {
	probeC14(t, `{"Version":"1","DefaultProduct":null,"Hosts":{"tagA":["Example.com"],"tagB":["example.com"]},"HostTags":{"pa":["tagA"],"pb":["tagB"]}}`, "example.com")
}

func TestProbeHostsDifferingOnlyInTrailingDot(t *testing.T) {
	probeC14(t, `{"Version":"1","DefaultProduct":null,"Hosts":{"tagA":["example.com."],"tagB":["example.com"]},"HostTags":{"pa":["tagA"],"pb":["tagB"]}}`, "example.com")
}

func TestProbeHostTagUnderTwoProducts(t *testing.T) {
	probeC14(t, `{"Version":"1","DefaultProduct":null,"Hosts":{"tagA":["example.com"]},"HostTags":{"pa":["tagA"],"pb":["tagA"]}}`, "example.com")
}

package bfe_bufio

import (
	"bytes"
	"errors"
	"testing"
)

type failingWriter struct{}

func (failingWriter) Write(p []byte) (int, error) { return 0, errors.New("backend gone") }

// Writer.ReadFrom returns the number of bytes it took from the reader; the running counter TotalWrite must
// advance by the same amount (property C22). When the buffer fills up and the flush that makes room fails,
// the bytes already taken are returned but were not counted.
func TestProbeWriterReadFromCountsWhatItReports(t *testing.T) {
	w := NewWriterSize(failingWriter{}, 16)
	before := w.TotalWrite
	n, err := w.ReadFrom(bytes.NewReader(make([]byte, 40)))
	if err == nil {
		t.Fatalf("expected the flush error")
	}
	if got := w.TotalWrite - before; int64(got) != n {
		t.Errorf("ReadFrom reported %d bytes taken but TotalWrite advanced by %d", n, got)
	}
}

package bfe_spdy

import (
	"bytes"
	"encoding/binary"
	"runtime"
	"testing"
)

// A header value block of 12 bytes that claims a 256 MiB header name makes parseHeaderValueBlock allocate
// 256 MiB before it notices that the bytes are not there.
func TestProbeHeaderBlockAllocation(t *testing.T) {
	var b bytes.Buffer
	binary.Write(&b, binary.BigEndian, uint32(1))       // one header
	binary.Write(&b, binary.BigEndian, uint32(256<<20)) // name length: 256 MiB
	b.Write([]byte("abcd"))
	var m0, m1 runtime.MemStats
	runtime.ReadMemStats(&m0)
	_, _, err := parseHeaderValueBlock(bytes.NewReader(b.Bytes()), 1)
	runtime.ReadMemStats(&m1)
	if err == nil {
		t.Fatalf("truncated block accepted")
	}
	if d := m1.TotalAlloc - m0.TotalAlloc; d > 16<<20 {
		t.Errorf("a %d-byte header block made the parser allocate %d MiB", b.Len(), d>>20)
	}
}

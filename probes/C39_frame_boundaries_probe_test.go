package bfe_spdy

import (
	"bytes"
	"encoding/binary"
	"testing"
)

// A control frame whose length field is larger than what its reader consumes must be rejected; otherwise the
// rest of its payload is interpreted as the next frame header (the frame boundary is lost).
func ctl(typ uint16, flags byte, payload []byte) []byte {
	var b bytes.Buffer
	binary.Write(&b, binary.BigEndian, uint16(0x8003))
	binary.Write(&b, binary.BigEndian, typ)
	l := uint32(flags)<<24 | uint32(len(payload))
	binary.Write(&b, binary.BigEndian, l)
	b.Write(payload)
	return b.Bytes()
}

func TestProbeFrameBoundaries(t *testing.T) {
	ping := ctl(uint16(TypePing), 0, []byte{0, 0, 0, 7})
	cases := []struct {
		name  string
		first []byte
	}{
		{"RST_STREAM length 12", ctl(uint16(TypeRstStream), 0, []byte{0, 0, 0, 1, 0, 0, 0, 1, 0xde, 0xad, 0xbe, 0xef})},
		{"PING length 8", ctl(uint16(TypePing), 0, []byte{0, 0, 0, 5, 0xde, 0xad, 0xbe, 0xef})},
		{"SETTINGS 1 entry, length 16", ctl(uint16(TypeSettings), 0, []byte{0, 0, 0, 1, 0, 0, 0, 4, 0, 0, 0, 100, 0xde, 0xad, 0xbe, 0xef})},
	}
	for _, c := range cases {
		wire := append(append([]byte{}, c.first...), ping...)
		f, err := NewFramer(new(bytes.Buffer), bytes.NewReader(wire))
		if err != nil {
			t.Fatal(err)
		}
		fr1, err1 := f.ReadFrame()
		if err1 != nil {
			continue // rejected: fine
		}
		fr2, err2 := f.ReadFrame()
		p, ok := fr2.(*PingFrame)
		if err2 != nil || !ok || p.Id != 7 {
			t.Errorf("%s: accepted as %T, then the following PING(7) frame was read as %T %v (err %v): frame boundary lost", c.name, fr1, fr2, fr2, err2)
		}
	}
}
